"""Canonical form of a function body for sibling comparison (R-TWIN) - idiom independence.

Two functions that differ only in how a Python programmer chose to write the same thing must compare equal.  Every rewrite
below is behaviour-preserving for the code it matches (evaluation order of pure sub-expressions aside); it is applied to both
siblings, bottom-up, until nothing changes.

  truth value   if/while/filter on len(x) != 0, len(x) > 0 -> x;  len(x) == 0 -> not x
  comparisons   x == None -> x is None; type(x) == T -> type(x) is T; not a in b -> a not in b; not (a == b) -> a != b; not not x -> x
  branches      if not c: A else: B -> if c: B else: A;  if c: T (ends in return/raise/continue/break) ; REST -> if c: T else: REST;
                top level `if c: return` ; REST -> if not c: REST;  if a: (if b: S) -> if a and b: S;
                if c: return True else: return False -> return c;  x = A if c else B -> if c: x = A else: x = B (also return)
  loops         v = [] ; for ..: [if ..:] v.append(e) -> v = [e for .. if ..] (also set()/add);  for x in E: yield x -> yield from E
  loop names    a name used only as the target of several (not nested) loops is one variable per loop
  aliases       v = t[0] (bound once, call-free path over names bound once) -> uses of v read t[0]
  locals        v = E ; <simple statement using v once, v dead afterwards> -> the statement with E in place of v
  expressions   range(0, n) -> range(n);  x[len(x) - 1] -> x[-1];  lambda a: f(a) -> f;  super(C, self) -> super();
                [x for x in E] -> list(E)
"""
import ast
import copy

_TERM = (ast.Return, ast.Raise, ast.Continue, ast.Break)
_NEG = {ast.Eq: ast.NotEq, ast.NotEq: ast.Eq, ast.Is: ast.IsNot, ast.IsNot: ast.Is, ast.In: ast.NotIn, ast.NotIn: ast.In,
        ast.Lt: ast.GtE, ast.GtE: ast.Lt, ast.Gt: ast.LtE, ast.LtE: ast.Gt}


def _is_none(e):
    return isinstance(e, ast.Constant) and e.value is None


def negate(e):
    """Logical negation in simplest form (numeric comparisons are only flipped for == / != / is / in: `not a < b` differs from
    `a >= b` for NaN)."""
    if isinstance(e, ast.UnaryOp) and isinstance(e.op, ast.Not):
        return e.operand
    if isinstance(e, ast.Compare) and len(e.ops) == 1 and type(e.ops[0]) in (ast.Eq, ast.NotEq, ast.Is, ast.IsNot, ast.In, ast.NotIn):
        return ast.Compare(left=e.left, ops=[_NEG[type(e.ops[0])]()], comparators=e.comparators)
    return ast.UnaryOp(op=ast.Not(), operand=e)


def _is_negated(e):
    if isinstance(e, ast.UnaryOp) and isinstance(e.op, ast.Not):
        return True
    return isinstance(e, ast.Compare) and len(e.ops) == 1 and isinstance(e.ops[0], (ast.NotEq, ast.IsNot, ast.NotIn))


def _truth(e):
    """Boolean context: len(x) != 0 / len(x) > 0 -> x;  len(x) == 0 -> not x;  bool(x) -> x;  x != [] ... stay."""
    if isinstance(e, ast.Call) and isinstance(e.func, ast.Name) and e.func.id == "bool" and len(e.args) == 1 and not e.keywords:
        return e.args[0]
    if isinstance(e, ast.Compare) and len(e.ops) == 1 and isinstance(e.left, ast.Call) and isinstance(e.left.func, ast.Name) \
            and e.left.func.id == "len" and len(e.left.args) == 1 and isinstance(e.comparators[0], ast.Constant) \
            and type(e.comparators[0].value) is int:
        k, op = e.comparators[0].value, e.ops[0]
        if k == 0 and isinstance(op, (ast.NotEq, ast.Gt)) or k == 1 and isinstance(op, ast.GtE):
            return e.left.args[0]
        if k == 0 and isinstance(op, (ast.Eq, ast.LtE)) or k == 1 and isinstance(op, ast.Lt):
            return ast.UnaryOp(op=ast.Not(), operand=e.left.args[0])
    if isinstance(e, ast.UnaryOp) and isinstance(e.op, ast.Not):
        inner = _truth(e.operand)
        if inner is not e.operand:
            return negate(inner)
    if isinstance(e, ast.BoolOp):
        e.values = [_truth(v) for v in e.values]
    return e


class _Expr(ast.NodeTransformer):
    def visit_If(self, n):
        self.generic_visit(n)
        n.test = _truth(n.test)
        return n

    def visit_While(self, n):
        self.generic_visit(n)
        n.test = _truth(n.test)
        return n

    def visit_comprehension(self, n):
        self.generic_visit(n)
        n.ifs = [_truth(x) for x in n.ifs]
        return n

    def visit_Compare(self, n):
        self.generic_visit(n)
        # membership in a display: a list display reads as a tuple; a one-element display is an (in)equality
        if len(n.ops) == 1 and isinstance(n.ops[0], (ast.In, ast.NotIn)) and isinstance(n.comparators[0], (ast.List, ast.Tuple, ast.Set)) \
                and not any(isinstance(e, ast.Starred) for e in n.comparators[0].elts):
            elts = n.comparators[0].elts
            if len(elts) == 1:
                n = ast.Compare(left=n.left, ops=[ast.Eq() if isinstance(n.ops[0], ast.In) else ast.NotEq()], comparators=[elts[0]])
            elif isinstance(n.comparators[0], ast.List):
                n.comparators = [ast.Tuple(elts=elts, ctx=ast.Load())]
        t = _truth(n)
        if t is not n:
            # len(x) > 0 as a value: bool(x) (the test contexts strip the bool again)
            if isinstance(t, ast.UnaryOp):
                return t
            return ast.Call(func=ast.Name("bool", ast.Load()), args=[t], keywords=[])
        if len(n.ops) == 1:
            l, r = n.left, n.comparators[0]
            if isinstance(n.ops[0], (ast.Eq, ast.NotEq)):
                is_type = lambda x: isinstance(x, ast.Call) and isinstance(x.func, ast.Name) and x.func.id == "type" and len(x.args) == 1
                if _is_none(r) or _is_none(l) or is_type(l) or is_type(r):
                    n.ops = [ast.Is() if isinstance(n.ops[0], ast.Eq) else ast.IsNot()]
                    if _is_none(l):
                        n.left, n.comparators = r, [l]
        return n

    def visit_UnaryOp(self, n):
        self.generic_visit(n)
        if isinstance(n.op, ast.Not):
            o = n.operand
            if isinstance(o, ast.UnaryOp) and isinstance(o.op, ast.Not):
                return o.operand if isinstance(o.operand, (ast.Compare, ast.BoolOp)) or (isinstance(o.operand, ast.UnaryOp) and isinstance(o.operand.op, ast.Not)) else n
            if isinstance(o, ast.Compare) and len(o.ops) == 1 and type(o.ops[0]) in (ast.Eq, ast.NotEq, ast.Is, ast.IsNot, ast.In, ast.NotIn):
                return negate(o)
        return n

    def visit_IfExp(self, n):
        self.generic_visit(n)
        n.test = _truth(n.test)
        if isinstance(n.test, ast.Constant) and isinstance(n.test.value, (bool, int, str, type(None))):
            return n.body if n.test.value else n.orelse          # a decided choice (a flag parameter written out) is its arm
        if _is_negated(n.test):
            n.test, n.body, n.orelse = negate(n.test), n.orelse, n.body
        return n

    def visit_Call(self, n):
        self.generic_visit(n)
        # dict() / list() / tuple(): the empty display;  (lambda: E)(): E
        if isinstance(n.func, ast.Name) and not n.args and not n.keywords and n.func.id in ("dict", "list", "tuple"):
            return {"dict": ast.Dict(keys=[], values=[]), "list": ast.List(elts=[], ctx=ast.Load()),
                    "tuple": ast.Tuple(elts=[], ctx=ast.Load())}[n.func.id]
        if isinstance(n.func, ast.Lambda) and not n.args and not n.keywords and not n.func.args.args and not n.func.args.kwonlyargs \
                and not n.func.args.vararg and not n.func.args.kwarg:
            return n.func.body
        if isinstance(n.func, ast.Name) and n.func.id == "range" and len(n.args) == 2 and isinstance(n.args[0], ast.Constant) \
                and n.args[0].value == 0 and not n.keywords:
            n.args = [n.args[1]]
        if isinstance(n.func, ast.Name) and n.func.id == "super" and len(n.args) == 2:
            n.args = []
        n.keywords.sort(key=lambda k: k.arg or "")
        return n

    def visit_Subscript(self, n):
        self.generic_visit(n)
        s = n.slice
        if isinstance(s, ast.BinOp) and isinstance(s.op, ast.Sub) and isinstance(s.right, ast.Constant) and type(s.right.value) is int \
                and isinstance(s.left, ast.Call) and isinstance(s.left.func, ast.Name) and s.left.func.id == "len" \
                and len(s.left.args) == 1 and ast.dump(s.left.args[0]) == ast.dump(n.value):
            n.slice = ast.UnaryOp(op=ast.USub(), operand=ast.Constant(s.right.value))
        return n

    def visit_Lambda(self, n):
        self.generic_visit(n)
        a = n.args
        if isinstance(n.body, ast.Call) and not n.body.keywords and not a.vararg and not a.kwarg and not a.kwonlyargs and not a.defaults \
                and [x.arg for x in a.args] == [x.id for x in n.body.args if isinstance(x, ast.Name)] and len(a.args) == len(n.body.args) \
                and not any(isinstance(x, ast.Name) and x.id in {y.arg for y in a.args} for x in ast.walk(n.body.func)):
            return n.body.func
        return n

    def visit_ListComp(self, n):
        self.generic_visit(n)
        if len(n.generators) == 1 and not n.generators[0].ifs and isinstance(n.elt, ast.Name) and isinstance(n.generators[0].target, ast.Name) \
                and n.elt.id == n.generators[0].target.id:
            return ast.Call(func=ast.Name("list", ast.Load()), args=[n.generators[0].iter], keywords=[])
        return n


def _uses(nodes, name):
    c = 0
    for st in nodes:
        for x in ast.walk(st):
            if isinstance(x, ast.Name) and x.id == name:
                c += 1
    return c


def _bool_valued(e):
    if isinstance(e, ast.Compare):
        return True
    if isinstance(e, ast.Call) and isinstance(e.func, ast.Name) and e.func.id == "bool":
        return True
    if isinstance(e, ast.UnaryOp) and isinstance(e.op, ast.Not):
        return True
    if isinstance(e, ast.BoolOp):
        return all(_bool_valued(v) for v in e.values)
    return False


def _boolish(e):
    if _bool_valued(e):
        return True
    return isinstance(e, ast.Call) and isinstance(e.func, ast.Name) and e.func.id == "bool"


def _flat(op, values):
    out = []
    for v in values:
        if isinstance(v, ast.BoolOp) and type(v.op) is type(op):
            out.extend(v.values)
        else:
            out.append(v)
    return ast.BoolOp(op=op, values=out)


def _ret_const(st, value):
    return isinstance(st, ast.Return) and isinstance(st.value, ast.Constant) and st.value.value is value


def _comprehension_of(init, loop):
    """`v = []` + `for t in E: [for..] [if c:] v.append(e)` -> the comprehension, or None."""
    if not (isinstance(init, ast.Assign) and len(init.targets) == 1 and isinstance(init.targets[0], ast.Name)):
        return None
    v = init.targets[0].id
    kind = None
    if isinstance(init.value, ast.List) and not init.value.elts:
        kind = "list"
    elif isinstance(init.value, ast.Call) and isinstance(init.value.func, ast.Name) and init.value.func.id == "set" and not init.value.args:
        kind = "set"
    if kind is None or not isinstance(loop, ast.For) or loop.orelse:
        return None
    gens, cur = [], loop
    while True:
        if isinstance(cur, ast.For) and not cur.orelse and len(cur.body) == 1:
            gens.append(ast.comprehension(target=cur.target, iter=cur.iter, ifs=[], is_async=0))
            cur = cur.body[0]
        elif isinstance(cur, ast.If) and not cur.orelse and len(cur.body) == 1 and gens:
            gens[-1].ifs.append(cur.test)
            cur = cur.body[0]
        else:
            break
    meth = "append" if kind == "list" else "add"
    if not (isinstance(cur, ast.Expr) and isinstance(cur.value, ast.Call) and isinstance(cur.value.func, ast.Attribute)
            and cur.value.func.attr == meth and isinstance(cur.value.func.value, ast.Name) and cur.value.func.value.id == v
            and len(cur.value.args) == 1 and not cur.value.keywords):
        return None
    if _uses([loop], v) != 1:
        return None
    elt = cur.value.args[0]
    comp = ast.ListComp(elt=elt, generators=gens) if kind == "list" else ast.SetComp(elt=elt, generators=gens)
    return ast.Assign(targets=[ast.Name(v, ast.Store())], value=comp, lineno=init.lineno)


def _block(stmts, top):
    """Canonical form of a statement list (already canonical below)."""
    changed = True
    while changed:
        changed = False
        out = []
        i = 0
        while i < len(stmts):
            st = stmts[i]
            rest = stmts[i + 1:]
            # guard + rest -> if/else ; top-level bare-return guard -> negated block
            if isinstance(st, ast.If) and not st.orelse and rest and st.body and isinstance(st.body[-1], _TERM):
                if top and len(st.body) == 1 and isinstance(st.body[0], ast.Return) and (st.body[0].value is None or _is_none(st.body[0].value)) \
                        and not any(isinstance(x, ast.Return) and x.value is not None and not _is_none(x.value)
                                    for r in rest for x in ast.walk(r)):
                    new = ast.If(test=negate(st.test), body=_block(rest, top), orelse=[])
                else:
                    new = ast.If(test=st.test, body=st.body, orelse=_block(rest, top))
                out.append(_if(new))
                stmts = out
                changed = True
                break
            # v = E1 ; v += E2  ->  v = E1 + E2      (a value built in two steps; E1 is a fresh value, not an alias)
            if rest and isinstance(st, ast.Assign) and len(st.targets) == 1 and isinstance(st.targets[0], ast.Name) \
                    and isinstance(st.value, (ast.Call, ast.List, ast.ListComp, ast.BinOp, ast.Constant, ast.JoinedStr)) \
                    and isinstance(rest[0], ast.AugAssign) and isinstance(rest[0].op, ast.Add) and isinstance(rest[0].target, ast.Name) \
                    and rest[0].target.id == st.targets[0].id \
                    and not any(isinstance(x, ast.Name) and x.id == st.targets[0].id for x in ast.walk(rest[0].value)):
                stmts = out + [ast.Assign(targets=st.targets, value=ast.BinOp(left=st.value, op=ast.Add(), right=rest[0].value),
                                          lineno=st.lineno)] + rest[1:]
                changed = True
                break
            # v = P + e ; P = v   ->   P += e ; v = P      (the read-modify-write of a table entry through a local)
            if rest and isinstance(st, ast.Assign) and len(st.targets) == 1 and isinstance(st.targets[0], ast.Name) \
                    and isinstance(st.value, ast.BinOp) and isinstance(st.value.op, (ast.Add, ast.Sub)) \
                    and isinstance(st.value.left, (ast.Subscript, ast.Attribute)) \
                    and isinstance(rest[0], ast.Assign) and len(rest[0].targets) == 1 and isinstance(rest[0].value, ast.Name) \
                    and rest[0].value.id == st.targets[0].id and ast.dump(rest[0].targets[0]).replace("Store()", "Load()") == ast.dump(st.value.left):
                aug = ast.AugAssign(target=rest[0].targets[0], op=st.value.op, value=st.value.right)
                ali = ast.Assign(targets=[st.targets[0]], value=st.value.left, lineno=st.lineno)
                stmts = out + [aug, ali] + rest[1:]
                changed = True
                break
            # v = [] ; for ...: v.append(e)
            if rest:
                comp = _comprehension_of(st, rest[0])
                if comp is not None:
                    stmts = out + [comp] + rest[1:]
                    changed = True
                    break
            # single-use local, used by the next simple statement and dead afterwards
            if isinstance(st, ast.Assign) and len(st.targets) == 1 and isinstance(st.targets[0], ast.Name) and rest \
                    and isinstance(rest[0], (ast.Return, ast.Expr, ast.Assign, ast.AugAssign, ast.Raise)) \
                    and not isinstance(st.value, (ast.Yield, ast.YieldFrom)):
                v = st.targets[0].id
                stores = [x for x in ast.walk(rest[0]) if isinstance(x, ast.Name) and x.id == v and not isinstance(x.ctx, ast.Load)]
                if _uses([rest[0]], v) == 1 and not stores and _uses(rest[1:], v) == 0 and _uses(out, v) == 0:
                    class _Sub(ast.NodeTransformer):
                        def visit_Name(self, n):
                            return copy.deepcopy(st.value) if n.id == v and isinstance(n.ctx, ast.Load) else n
                    stmts = out + [_Sub().visit(rest[0])] + rest[1:]
                    changed = True
                    break
            out.append(st)
            i += 1
        else:
            stmts = out
    return stmts


def _if(n):
    """Canonical form of one if statement whose parts are canonical."""
    if n.orelse and _is_negated(n.test):
        n = ast.If(test=negate(n.test), body=n.orelse, orelse=n.body)
    if not n.orelse and len(n.body) == 1 and isinstance(n.body[0], ast.If) and not n.body[0].orelse:
        inner = n.body[0]
        vals = (n.test.values if isinstance(n.test, ast.BoolOp) and isinstance(n.test.op, ast.And) else [n.test]) + \
               (inner.test.values if isinstance(inner.test, ast.BoolOp) and isinstance(inner.test.op, ast.And) else [inner.test])
        return _if(ast.If(test=ast.BoolOp(op=ast.And(), values=vals), body=inner.body, orelse=[]))
    if len(n.body) == 1 and len(n.orelse) == 1:
        a, b = n.body[0], n.orelse[0]
        as_bool = lambda t: t if _bool_valued(t) else ast.Call(func=ast.Name("bool", ast.Load()), args=[t], keywords=[])
        if _ret_const(a, True) and _ret_const(b, False):
            return ast.Return(value=as_bool(n.test))
        if _ret_const(a, False) and _ret_const(b, True):
            return ast.Return(value=negate(n.test))
        # if c: return True else: return X -> return c or X ;  if c: return X else: return False -> return c and X
        if isinstance(a, ast.Return) and isinstance(b, ast.Return) and a.value is not None and b.value is not None:
            if _ret_const(a, True) and _boolish(b.value):
                return ast.Return(value=_flat(ast.Or(), [as_bool(n.test), b.value]))
            if _ret_const(b, False) and _boolish(a.value):
                return ast.Return(value=_flat(ast.And(), [as_bool(n.test), a.value]))
            if _ret_const(a, False) and _boolish(b.value):
                return ast.Return(value=_flat(ast.And(), [negate(n.test), b.value]))
            if _ret_const(b, True) and _boolish(a.value):
                return ast.Return(value=_flat(ast.Or(), [negate(n.test), a.value]))
    return n


def _split_ifexp(st):
    """`x = A if c else B` / `return A if c else B` -> the statement form (one alternative per line)."""
    if isinstance(st, (ast.Assign, ast.Return, ast.AugAssign)) and isinstance(getattr(st, "value", None), ast.IfExp):
        e = st.value
        a, b = copy.copy(st), copy.copy(st)
        a.value, b.value = e.body, e.orelse
        return _if(ast.If(test=e.test, body=[_split_ifexp(a)], orelse=[_split_ifexp(b)]))
    return st


class _Stmt(ast.NodeTransformer):
    def __init__(self):
        self.depth = 0

    def visit_Assign(self, n):
        return _split_ifexp(n)

    def visit_AugAssign(self, n):
        return _split_ifexp(n)

    def visit_Return(self, n):
        return _split_ifexp(n)

    def _blk(self, stmts, top=False):
        return _block([self.visit(s) for s in stmts], top) or [ast.Pass()]

    def visit_FunctionDef(self, n):
        self.depth += 1
        top = self.depth == 1
        n.body = self._blk(n.body, top=top)
        # a trailing bare `return` says nothing
        while top and len(n.body) > 1 and isinstance(n.body[-1], ast.Return) and n.body[-1].value is None:
            n.body = n.body[:-1]
        self.depth -= 1
        return n

    def visit_If(self, n):
        n.body = self._blk(n.body)
        n.orelse = self._blk(n.orelse) if n.orelse else []
        return _if(n)

    def visit_For(self, n):
        n.body = self._blk(n.body)
        n.orelse = self._blk(n.orelse) if n.orelse else []
        if not n.orelse and len(n.body) == 1 and isinstance(n.body[0], ast.Expr) and isinstance(n.body[0].value, ast.Yield) \
                and isinstance(n.body[0].value.value, ast.Name) and isinstance(n.target, ast.Name) and n.body[0].value.value.id == n.target.id:
            return ast.Expr(value=ast.YieldFrom(value=n.iter))
        return n

    def visit_While(self, n):
        n.body = self._blk(n.body)
        n.orelse = self._blk(n.orelse) if n.orelse else []
        return n

    def visit_With(self, n):
        n.body = self._blk(n.body)
        return n

    def visit_Try(self, n):
        n.body = self._blk(n.body)
        for h in n.handlers:
            h.body = self._blk(h.body)
        n.orelse = self._blk(n.orelse) if n.orelse else []
        n.finalbody = self._blk(n.finalbody) if n.finalbody else []
        return n


def _split_loop_vars(fn):
    """A name that is only ever a `for` target, and only read inside the loops that bind it, is a different variable in
    each loop: each loop gets its own name (re-using `x` for two loops or not is a spelling)."""
    targets = {}
    for n in ast.walk(fn):
        if isinstance(n, ast.For) and isinstance(n.target, ast.Name):
            targets.setdefault(n.target.id, []).append(n)
    for name, loops in targets.items():
        if len(loops) < 2:
            continue
        inside = set()
        nested = False
        for lp in loops:
            for x in ast.walk(lp):
                if isinstance(x, ast.Name) and x.id == name:
                    inside.add(id(x))
                if x is not lp and isinstance(x, ast.For) and isinstance(x.target, ast.Name) and x.target.id == name:
                    nested = True
        everywhere = [x for x in ast.walk(fn) if isinstance(x, ast.Name) and x.id == name]
        other_stores = [x for x in everywhere if not isinstance(x.ctx, ast.Load) and not any(x is lp.target for lp in loops)]
        params = {a.arg for a in fn.args.posonlyargs + fn.args.args + fn.args.kwonlyargs}
        if nested or other_stores or name in params or any(id(x) not in inside for x in everywhere):
            continue
        for k, lp in enumerate(loops):
            for x in ast.walk(lp):
                if isinstance(x, ast.Name) and x.id == name:
                    x.id = "%s__loop%d" % (name, k)
    return fn


def _pure_path(e):
    if isinstance(e, (ast.Name, ast.Constant)):
        return True
    if isinstance(e, ast.Attribute):
        return _pure_path(e.value)
    if isinstance(e, ast.Subscript):
        return _pure_path(e.value) and _pure_path(e.slice)
    return False


def _split_unpacking(fn):
    """`a, b = t` with t a call-free path -> `a = t[0]; b = t[1]` (then ordinary aliases)."""
    class _U(ast.NodeTransformer):
        def visit_Assign(self, n):
            if len(n.targets) == 1 and isinstance(n.targets[0], ast.Tuple) and all(isinstance(x, ast.Name) for x in n.targets[0].elts) \
                    and _pure_path(n.value) and not isinstance(n.value, ast.Constant):
                return [ast.Assign(targets=[ast.Name(x.id, ast.Store())],
                                   value=ast.Subscript(value=copy.deepcopy(n.value), slice=ast.Constant(i), ctx=ast.Load()), lineno=n.lineno)
                        for i, x in enumerate(n.targets[0].elts)]
            return n
    fn = _U().visit(fn)
    ast.fix_missing_locations(fn)
    return fn


def _propagate_aliases(fn):
    """`v = t[0]` (a local bound once to a call-free path over names that are themselves bound once) is another name for that
    path: its uses are written out and the binding dropped."""
    fn = _split_unpacking(fn)
    for _ in range(24):
        stores = {}
        for n in ast.walk(fn):
            if isinstance(n, ast.Name) and not isinstance(n.ctx, ast.Load):
                stores[n.id] = stores.get(n.id, 0) + 1
            elif isinstance(n, ast.ExceptHandler) and n.name:
                stores[n.name] = stores.get(n.name, 0) + 2
        params = {a.arg for a in fn.args.posonlyargs + fn.args.args + fn.args.kwonlyargs}
        cand = None
        parents = {}
        for p_ in ast.walk(fn):
            for c_ in ast.iter_child_nodes(p_):
                parents[c_] = p_
        for n in ast.walk(fn):
            if isinstance(n, ast.Assign) and len(n.targets) == 1 and isinstance(n.targets[0], ast.Name) and _pure_path(n.value) \
                    and stores.get(n.targets[0].id) == 1 and n.targets[0].id not in params:
                names = {x.id for x in ast.walk(n.value) if isinstance(x, ast.Name)}
                if n.targets[0].id in names or isinstance(n.value, ast.Name) and n.value.id == "self":
                    continue
                ok = True
                for nm in names:
                    if nm == "self":
                        continue
                    if stores.get(nm, 0) > 1 or (nm in params and stores.get(nm, 0) > 0):
                        ok = False
                    elif stores.get(nm, 0) == 1:
                        # a loop variable must be bound by a loop around the alias
                        cur, inside = n, False
                        binder = next((x for x in ast.walk(fn) if isinstance(x, (ast.For, ast.comprehension)) and any(
                            isinstance(y, ast.Name) and y.id == nm for y in ast.walk(x.target))), None)
                        if binder is not None:
                            while cur in parents:
                                cur = parents[cur]
                                if cur is binder:
                                    inside = True
                            ok = ok and inside
                if ok:
                    cand = n
                    break
        if cand is None:
            break
        v, val = cand.targets[0].id, cand.value

        class _Sub(ast.NodeTransformer):
            def visit_Name(self, x):
                return copy.deepcopy(val) if x.id == v and isinstance(x.ctx, ast.Load) else x

            def visit_Assign(self, x):
                if x is cand:
                    return None
                self.generic_visit(x)
                return x
        fn = _Sub().visit(fn)
        for x in ast.walk(fn):
            for fld in ("body", "orelse", "finalbody"):
                if isinstance(getattr(x, fld, None), list) and not getattr(x, fld) and fld == "body":
                    x.body = [ast.Pass()]
        ast.fix_missing_locations(fn)
    return fn


def canonical(fn_node):
    """Canonical copy of a FunctionDef."""
    fn = _propagate_aliases(_split_loop_vars(copy.deepcopy(fn_node)))
    prev = None
    for _ in range(6):
        fn = _Expr().visit(fn)
        fn = _Stmt().visit(fn)
        fn = _propagate_aliases(fn)
        ast.fix_missing_locations(fn)
        cur = ast.dump(fn)
        if cur == prev:
            break
        prev = cur
    return fn
