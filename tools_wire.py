#!/usr/bin/env python3
"""Maintenance helper: add `obs += ctx.attempt(lambda c, cl: <call>(c, cl)[0], ...)` before exceptions.apply in a property check.
usage: tools_wire.py <prop> <module> <func> <clause>"""
import re, sys
prop, mod, func, clause = sys.argv[1:5]
p = '/verif/sa/props/%s.py' % prop.lower()
s = open(p).read()
line = '    obs += ctx.attempt(lambda c, cl: %s.%s(c, cl)[0], ctx, "%s", default=[])\n' % (mod, func, clause)
if line in s:
    sys.exit("already wired")
assert s.count('    exceptions.apply(obs)\n') == 1, p
s = s.replace('    exceptions.apply(obs)\n', line + '    exceptions.apply(obs)\n')
head = s.split('def check')[0]
if not re.search(r'^from \.\.rules import .*\b%s\b' % mod, head, re.M):
    if re.search(r'^from \.\.rules import ', s, re.M):
        s = re.sub(r'^(from \.\.rules import [^\n]+)', lambda m: m.group(1) + ', ' + mod, s, count=1, flags=re.M)
    else:
        s = re.sub(r'^(from \.\.report import [^\n]+)', lambda m: m.group(1) + '\nfrom ..rules import ' + mod, s, count=1, flags=re.M)
open(p, 'w').write(s)
print("wired", prop, line.strip())
