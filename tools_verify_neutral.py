#!/usr/bin/env python3
"""Maintenance helper: confirm behaviour-preserving refactorings written by sub-agents (scratch worktree of /repo HEAD):
demo digest on the clean tree, git apply, baseline tests, demo digest on the changed tree must be equal.
usage: tools_verify_neutral.py <outdir> <ID> ...  -> <outdir>/<ID>/verify.json"""
import json, os, subprocess, sys, xml.etree.ElementTree as ET
BASE = set(json.load(open('/root/.vp/BASELINE.json'))['stable_pass'])
def sh(cmd, cwd=None, timeout=1200, env=None, stdout_only=False):
    r = subprocess.run(cmd, shell=True, cwd=cwd, capture_output=True, text=True, timeout=timeout, env=env)
    return r.returncode, (r.stdout if stdout_only else r.stdout + r.stderr)
def main(outdir, ids):
    os.makedirs('/tmp/vn', exist_ok=True)
    for pid in ids:
        wt = '/tmp/vn/' + pid
        sh('git -C /repo worktree remove --force ' + wt)
        rc, o = sh('git -C /repo worktree add --detach %s HEAD' % wt)
        assert rc == 0, o
        res = {}
        env = dict(os.environ, PYTHONPATH=wt, PYTHONWARNINGS='ignore', PYTHONHASHSEED='0')
        for k in (1, 2, 3):
            d = '%s/%s' % (outdir, pid)
            patch, demo = '%s/patch%d.diff' % (d, k), '%s/demo%d.py' % (d, k)
            if not os.path.exists(patch):
                continue
            r = {}
            sh('git checkout -- . && git clean -fdq', cwd=wt)
            # the agents' demos assert that they import the package from their own worktree: point them at this one
            loc = '/tmp/vn/%s_demo%d.py' % (pid, k)
            open(loc, 'w').write(open(demo).read().replace('/tmp/wtn4/' + pid, wt).replace('/tmp/wtn3/' + pid, wt).replace('/tmp/wtn2/' + pid, wt).replace('/tmp/wtn/' + pid, wt))
            demo = loc
            rc, o1 = sh('/venv/bin/python %s' % demo, cwd=wt, env=env, timeout=1800, stdout_only=True)   # the digest is what the demo prints
            r['demo_clean_rc'] = rc
            rc, o = sh('git apply %s' % patch, cwd=wt)
            r['applies'] = rc == 0
            if rc:
                r['apply_err'] = o[-200:]; res[k] = r; continue
            j = '/tmp/vn/%s_%d.xml' % (pid, k)
            sh('/venv/bin/python -m pytest -q -p no:cacheprovider --timeout=900 --continue-on-collection-errors --junitxml=%s' % j, cwd=wt)
            ok = set()
            try:
                for tc in ET.parse(j).iter('testcase'):
                    if not list(tc): ok.add(tc.get('classname') + '::' + tc.get('name'))
            except Exception as e:
                r['junit_err'] = str(e)
            r['baseline_missing'] = sorted(BASE - ok)
            rc, o2 = sh('/venv/bin/python %s' % demo, cwd=wt, env=env, timeout=1800, stdout_only=True)
            r['demo_changed_rc'] = rc
            r['same_output'] = (o1 == o2)
            if o1 != o2:
                r['clean_tail'], r['changed_tail'] = o1[-200:], o2[-200:]
            res[k] = r
            if os.path.exists(j): os.remove(j)
        sh('git checkout -- . && git clean -fdq', cwd=wt)
        sh('git -C /repo worktree remove --force ' + wt)
        json.dump(res, open('%s/%s/verify.json' % (outdir, pid), 'w'), indent=1)
        print(pid, {k: ('OK' if v.get('applies') and v.get('same_output') and not v.get('baseline_missing', ['x']) and v.get('demo_clean_rc') == 0 else v) for k, v in res.items()}, flush=True)
if __name__ == '__main__':
    main(sys.argv[1], sys.argv[2:])
