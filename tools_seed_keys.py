#!/usr/bin/env python3
"""Maintenance helper: for every stored seed, the finding keys its own check reports (-> /tmp/seedkeys.json, printed per seed by rule family).
Used to see which seeds depend on which rule before a rule is reworked."""
import json, os, shutil, subprocess, sys, tempfile
from concurrent.futures import ThreadPoolExecutor
V='/verif'
seeds=sorted(n for n in os.listdir(V+'/seeded') if not sys.argv[1:] or n.startswith(tuple(sys.argv[1:])))
def one(seed):
    d=tempfile.mkdtemp(prefix='sa_keys_')
    try:
        shutil.copytree('/repo/shexer', d+'/shexer', ignore=shutil.ignore_patterns('__pycache__'))
        r=subprocess.run(['git','apply','--whitespace=nowarn',V+'/seeded/%s/patch.diff'%seed],cwd=d,capture_output=True,text=True)
        if r.returncode: return seed,{'apply':r.stderr[-100:]}
        p=seed.split('-')[0]
        env=dict(os.environ,SA_REPO=d,SA_OUT=d,PYTHONPATH=V)
        r=subprocess.run(['/venv/bin/python','-W','ignore','-m','sa','check',p],cwd=V,env=env,capture_output=True,text=True)
        keys=[l.strip()[5:] for l in r.stdout.splitlines() if l.strip().startswith('key: ')]
        return seed,{'rc':r.returncode,'keys':keys}
    finally: shutil.rmtree(d,ignore_errors=True)
with ThreadPoolExecutor(16) as ex:
    out=dict(ex.map(one,seeds))
json.dump(out,open('/tmp/seedkeys.json','w'),indent=1)
for s in seeds:
    r=out[s]
    print('%-9s rc=%s %s'%(s,r.get('rc'),sorted({k.split('|')[0] for k in r.get('keys',[])})))
