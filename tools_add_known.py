#!/usr/bin/env python3
"""Maintenance helper (never used by the checks): append an entry to known_findings.jsonl."""
import json, sys
def add(status, prop, key, what, extra=None):
    e = {"status": status, "property": prop, "key": key, "what": what}
    if extra: e.update(extra)
    if status == "fixed":
        e["record"] = "fixed: property=%s %s %s" % (prop, extra["commit"], what)
    with open("/verif/known_findings.jsonl", "a") as fh:
        fh.write(json.dumps(e, sort_keys=True) + "\n")
if __name__ == "__main__":
    add(*sys.argv[1:5], extra=json.loads(sys.argv[5]) if len(sys.argv) > 5 else None)
