#!/bin/sh
# maintenance helper: all claimed quick checks on /repo, 8 at a time; prints the summary line of each and any non-zero exit
cd /verif
for p in C01 C02 C03 C04 C05 C06 C07 C09 C10 C11 C12 C13 C14 C15 C16 C17 C18 C19 C20; do
  ( /venv/bin/python -W ignore -m sa check $p > /tmp/qa_$p.log 2>&1; echo "$p exit=$? $(tail -1 /tmp/qa_$p.log | cut -c1-150)" ) &
done; wait
