import json


class AbstractProfileSerializer(object):

    def __init__(self, profile_obj):
        self._profile_obj = profile_obj

    def write_profile_to_file(self, target_file):
        with open(target_file, "w") as out_stream:
            json.dump(self._profile_obj, out_stream, indent=2)

    def get_string_representation(self):
        return json.dumps(self._profile_obj, indent=2)
