from SPARQLWrapper import SPARQLWrapper, JSON
from urllib.error import HTTPError
from time import sleep
import ssl
ssl._create_default_https_context = ssl._create_unverified_context

from SPARQLWrapper.SPARQLExceptions import EndPointInternalError

_FAKE_USER_AGENT = "Mozilla/5.0 (Platform; Security; OS-or-CPU; Localization; rv:1.4) Gecko/20030624 Netscape/7.1 (ax)"
_RESULTS_KEY = "results"
_BINDINGS_KEY = "bindings"
_VALUE_KEY = "value"
_TYPE_KEY = "type"
_URI_TYPE = "uri"

_XML_LANG_FIELD = "xml:lang"


def _add_lang_if_needed(result_dict):
    result = result_dict[_VALUE_KEY]
    if _XML_LANG_FIELD in result_dict:
        result += '"' + result + '"@' + result_dict[_XML_LANG_FIELD]
    return result


def _add_corners_if_needed(target_elem, elem_type):
    if elem_type == _URI_TYPE and not target_elem.startswith("<"):
        return "<" + target_elem + ">"
    return target_elem


def query_endpoint_single_variable(endpoint_url, str_query, variable_id, max_retries=10, sleep_time=5, fake_user_agent=True):
    """
    It receives an SPARQL query with a single variable and returns a list with the resulting nodes

    :param endpoint_url:
    :param str_query:
    :param variable_id:
    :return:
    """
    result_query = _query_endpoint_json_result(endpoint_url=endpoint_url,
                                               str_query=str_query,
                                               max_retries=max_retries,
                                               sleep_time=sleep_time,
                                               fake_user_agent=fake_user_agent)
    result = []
    for row in result_query[_RESULTS_KEY][_BINDINGS_KEY]:
        an_elem = row[variable_id][_VALUE_KEY]
        result.append(an_elem)
    return result


def query_endpoint_sp_of_an_o(endpoint_url, str_query, s_id, p_id, max_retries=5, sleep_time=2, fake_user_agent=True):
    result_query = _query_endpoint_json_result(endpoint_url=endpoint_url,
                                               str_query=str_query,
                                               max_retries=max_retries,
                                               sleep_time=sleep_time,
                                               fake_user_agent=fake_user_agent)
    result = []
    for row in result_query[_RESULTS_KEY][_BINDINGS_KEY]:
        p_value = _add_corners_if_needed(target_elem=row[p_id][_VALUE_KEY],
                                         elem_type=row[p_id][_TYPE_KEY])
        s_value = _add_corners_if_needed(target_elem=_add_lang_if_needed(row[s_id]),
                                         elem_type=row[s_id][_TYPE_KEY])
        result.append((s_value, p_value))
    return result


def query_endpoint_po_of_an_s(endpoint_url, str_query, p_id, o_id, max_retries=5, sleep_time=2, fake_user_agent=True):

    result_query = _query_endpoint_json_result(endpoint_url=endpoint_url,
                                               str_query=str_query,
                                               max_retries=max_retries,
                                               sleep_time=sleep_time,
                                               fake_user_agent=fake_user_agent)
    result = []
    for row in result_query[_RESULTS_KEY][_BINDINGS_KEY]:
        p_value = _add_corners_if_needed(target_elem=row[p_id][_VALUE_KEY],
                                         elem_type=row[p_id][_TYPE_KEY])
        o_value = _add_corners_if_needed(target_elem=_add_lang_if_needed(row[o_id]),
                                         elem_type=row[o_id][_TYPE_KEY])
        result.append((p_value, o_value))
    return result



def _query_endpoint_json_result(endpoint_url, str_query, max_retries=5, sleep_time=2, fake_user_agent=True):
    first_failure = True
    sparql = SPARQLWrapper(endpoint_url)
    if fake_user_agent:
        sparql.agent = _FAKE_USER_AGENT
    sparql.setQuery(str_query)
    sparql.setReturnFormat(JSON)
    last_error = None
    while max_retries > 0:
        try:
            return sparql.query().convert()
        except (HTTPError, EndPointInternalError) as e:
            max_retries -= 1
            sleep(sleep_time)
            last_error = e
            if first_failure and not fake_user_agent:
                sparql.agent = _FAKE_USER_AGENT
                first_failure = not first_failure
    last_error.msg = "Max number of attempt reached, it is not possible to perform the query. Msg:\n" + last_error.msg