from shexer.core.profiling.class_profiler import RDF_TYPE_STR
from shexer.model.shape import STARTING_CHAR_FOR_SHAPE_NAME
from rdflib import Graph, Namespace, URIRef, RDF, BNode, XSD, Literal
from shexer.model.statement import POSITIVE_CLOSURE, KLEENE_CLOSURE, OPT_CARDINALITY
from shexer.utils.uri import XSD_NAMESPACE, LANG_STRING_TYPE
from shexer.model.const_elem_types import IRI_ELEM_TYPE, LITERAL_ELEM_TYPE, DOT_ELEM_TYPE, BNODE_ELEM_TYPE, \
    NONLITERAL_ELEM_TYPE
from shexer.io.wikidata import wikidata_annotation
from wlighter import TURTLE_FORMAT

_EXPECTED_SHAPE_BEGINING = STARTING_CHAR_FOR_SHAPE_NAME + "<"
_EXPECTED_SHAPE_ENDING = ">"

_SHACL_NAMESPACE = "http://www.w3.org/ns/shacl#"

_SHACL_PRIORITY_PREFIXES = ["sh", "shacl", "sha"]

_R_SHACL_SHAPE_URI = URIRef(_SHACL_NAMESPACE + "NodeShape")
_R_SHACL_PROPERTY_SHAPE_URI = URIRef(_SHACL_NAMESPACE + "PropertyShape")

_R_SHACL_TARGET_CLASS_PROP = URIRef(_SHACL_NAMESPACE + "targetClass")
_R_SHACL_PATH_PROP = URIRef(_SHACL_NAMESPACE + "path")
_R_SHACL_INVERSE_PATH_PROP = URIRef(_SHACL_NAMESPACE + "inversePath")
_R_SHACL_MIN_COUNT_PROP = URIRef(_SHACL_NAMESPACE + "minCount")
_R_SHACL_MAX_COUNT_PROP = URIRef(_SHACL_NAMESPACE + "maxCount")

_R_SHACL_PROPERTY_PROP = URIRef(_SHACL_NAMESPACE + "property")

_R_SHACL_DATATYPE_PROP = URIRef(_SHACL_NAMESPACE + "dataType")
_R_SHACL_NODEKIND_PROP = URIRef(_SHACL_NAMESPACE + "nodeKind")
_R_SHACL_NODE_PROP = URIRef(_SHACL_NAMESPACE + "node")

_R_SHACL_IN_PROP = URIRef(_SHACL_NAMESPACE + "in")

_R_SHACL_PATTERN_PROP = URIRef(_SHACL_NAMESPACE + "pattern")

_R_SHACL_NODEKIND_IRI = URIRef(_SHACL_NAMESPACE + "IRI")
_R_SHACL_NODEKIND_LITERAL = URIRef(_SHACL_NAMESPACE + "Literal")
_R_SHACL_NODEKIND_BNODE = URIRef(_SHACL_NAMESPACE + "BlankNode")
_R_SHACL_NODEKIND_NONLITERAL = URIRef(_SHACL_NAMESPACE + "BlankNodeOrIRI")
_R_SHACL_NODEKIND_DOT = None

_R_LANG_STRING = URIRef("http://www.w3.org/2000/01/rdf-schema#langString")

_INTEGER = "i"
_STRING = "s"

_MACRO_MAPPING = {IRI_ELEM_TYPE: _R_SHACL_NODEKIND_IRI,
                  LITERAL_ELEM_TYPE: _R_SHACL_NODEKIND_LITERAL,
                  DOT_ELEM_TYPE: _R_SHACL_NODEKIND_DOT,
                  BNODE_ELEM_TYPE: _R_SHACL_NODEKIND_BNODE,
                  NONLITERAL_ELEM_TYPE: _R_SHACL_NODEKIND_NONLITERAL}


class ShaclSerializer(object):

    def __init__(self, target_file, shapes_list, namespaces_dict=None, string_return=False,
                 instantiation_property_str=RDF_TYPE_STR, wikidata_annotation=False,
                 detect_minimal_iri=False, shape_example_features=None):
        self._target_file = target_file
        self._namespaces_dict = dict(namespaces_dict) if namespaces_dict is not None else {}
        self._shapes_list = shapes_list
        self._string_return = string_return
        self._instantiation_property_str = instantiation_property_str
        self._wikidata_annotation = wikidata_annotation
        self._detect_minimal_iri = detect_minimal_iri
        self._shape_example_features = shape_example_features

        self._g_shapes = Graph()

        # self._uri_dict = {}

    def serialize_shapes(self):
        self._add_namespaces()
        self._add_shapes()
        return self._produce_output()

    #################### NAMESPACES

    def _add_namespaces(self):
        self._add_param_namespaces()
        self._add_shacl_namespace_if_needed()

    def _add_param_namespaces(self):
        for a_namespace, a_prefix in self._namespaces_dict.items():
            self._add_namespace(prefix=a_prefix,
                                namespace_str=a_namespace)

    def _add_namespace(self, prefix, namespace_str):
        self._g_shapes.bind(prefix=prefix,
                            namespace=Namespace(namespace_str))

    def _add_shacl_namespace_if_needed(self):
        if _SHACL_NAMESPACE in self._namespaces_dict:  # shacl already included
            return
        curr_prefixes = self._namespaces_dict.values()
        for a_prefix in _SHACL_PRIORITY_PREFIXES:  # trying default prefixes
            if a_prefix not in curr_prefixes:
                self._add_shacl_namespace(a_prefix)
                return
        counter = 1  # going for random prefixes, no defs. available
        candidate_pref = _SHACL_PRIORITY_PREFIXES[0] + str(counter)
        while candidate_pref in curr_prefixes:
            counter += 1
            candidate_pref = _SHACL_PRIORITY_PREFIXES[0] + str(counter)
        self._add_shacl_namespace(candidate_pref)

    def _add_shacl_namespace(self, shacl_prefix):
        self._add_namespace(prefix=shacl_prefix,
                            namespace_str=_SHACL_NAMESPACE)
        self._namespaces_dict[_SHACL_NAMESPACE] = shacl_prefix

    #################### SHAPES

    def _add_shapes(self):
        for a_shape in self._shapes_list:
            self._add_shape(a_shape)

    def _add_shape(self, shape):
        r_shape_uri = self._generate_shape_uri(shape_name=shape.name)
        self._add_shape_uri(r_shape_uri=r_shape_uri)
        self._add_target_class(r_shape_uri=r_shape_uri,
                               shape=shape)
        if self._detect_minimal_iri:
            self._add_min_iri(r_shape_uri=r_shape_uri,
                              shape=shape)
        self._add_shape_constraints(shape=shape,
                                    r_shape_uri=r_shape_uri)


    def _add_target_class(self, shape, r_shape_uri):
        if shape.class_uri is not None:
            self._add_triple(r_shape_uri,
                             _R_SHACL_TARGET_CLASS_PROP,
                             URIRef(shape.class_uri))  # TODO check if this is always an abs. URI, not sure

    def _add_min_iri (self, shape, r_shape_uri):
        # if shape.iri_pattern is not None:
        if self._shape_example_features.shape_min_iri(shape_id=shape.class_uri) is not None:
            self._add_triple(r_shape_uri,
                             _R_SHACL_PATTERN_PROP,
                             self._literal_iri_pattern(shape))

    def _literal_iri_pattern(self, shape):
        return Literal("^{}".format(self._shape_example_features.shape_min_iri(shape_id=shape.class_uri)))

    def _add_shape_constraints(self, shape, r_shape_uri):
        for a_statement in shape.yield_statements():
            self._add_constraint(statement=a_statement,
                                 r_shape_uri=r_shape_uri)

    def _is_instantiation_property(self, str_property):
        return str_property == self._instantiation_property_str

    def _add_constraint(self, statement, r_shape_uri):
        if self._is_instantiation_property(statement.st_property):
            self._add_instantiation_constraint(statement=statement,
                                               r_shape_uri=r_shape_uri)
        else:
            self._add_regular_constraint(statement=statement,
                                         r_shape_uri=r_shape_uri)

    def _add_exactly_one_cardinality(self, r_constraint_node):
        self._add_min_occurs(r_constraint_node=r_constraint_node,
                             min_occurs=1)
        self._add_max_occurs(r_constraint_node=r_constraint_node,
                             max_occurs=1)

    def _add_in_instance(self, r_constraint_node, statement):
        target_node = self._generate_r_uri_for_str_uri(statement.st_type)
        list_seed_node = self._generate_bnode()
        self._add_triple(r_constraint_node, _R_SHACL_IN_PROP, list_seed_node)
        self._add_triple(list_seed_node, RDF.first, target_node)
        self._add_triple(list_seed_node, RDF.rest, RDF.nil)

    def _add_instantiation_constraint(self, statement, r_shape_uri):
        r_constraint_node = self._generate_bnode()
        self._add_bnode_property(r_shape_uri=r_shape_uri,
                                 r_constraint_node=r_constraint_node)
        self._add_direct_path(statement=statement,
                              r_constraint_node=r_constraint_node)
        self._add_exactly_one_cardinality(r_constraint_node=r_constraint_node)
        self._add_in_instance(statement=statement,
                              r_constraint_node=r_constraint_node)

    def _add_regular_constraint(self, statement, r_shape_uri):
        r_constraint_node = self._generate_bnode()
        self._add_bnode_property(r_shape_uri=r_shape_uri,
                                 r_constraint_node=r_constraint_node)
        self._add_node_type(statement=statement,
                            r_constraint_node=r_constraint_node)
        self._add_cardinality(statement=statement,
                              r_constraint_node=r_constraint_node)
        self._add_path(statement=statement,
                       r_constraint_node=r_constraint_node)

    def _add_path(self, statement, r_constraint_node):
        if not statement.is_inverse:
            self._add_direct_path(statement=statement,
                                  r_constraint_node=r_constraint_node)
        else:
            self._add_inverse_path(statement=statement,
                                   r_constraint_node=r_constraint_node)

    def _add_direct_path(self, statement, r_constraint_node):
        r_property_uri = self._generate_r_uri_for_str_uri(statement.st_property)
        self._add_triple(r_constraint_node, _R_SHACL_PATH_PROP, r_property_uri)

    def _add_inverse_path(self, statement, r_constraint_node):
        r_property_uri = self._generate_r_uri_for_str_uri(statement.st_property)
        inverse_path_node = self._generate_bnode()
        self._add_triple(r_constraint_node, _R_SHACL_PROPERTY_PROP, inverse_path_node)
        self._add_triple(inverse_path_node, _R_SHACL_INVERSE_PATH_PROP, r_property_uri)

    def _generate_r_uri_for_str_uri(self, property_str):
        if property_str.startswith("<") and property_str.endswith(">"):
            return URIRef(property_str[1:-1])
        elif property_str.startswith("http://") or property_str.startswith("https://"):
            return URIRef(property_str)
        raise ValueError("Having troubles recognizing this URI", property_str, ". "
                        "Is it well-formed? If you think so, add a GitHub issue. ")

    def _is_a_shape(self, target_type):
        return target_type.startswith(STARTING_CHAR_FOR_SHAPE_NAME)

    def _is_literal(self, target_type):
        return target_type == LANG_STRING_TYPE or target_type.startswith(XSD_NAMESPACE)

    def _is_macro(self, target_type):
        return target_type in _MACRO_MAPPING

    def _add_dataType_literal(self, r_constraint_node, target_type):
        # if target_type == LANG_STRING_TYPE:
        #     type_node = _R_LANG_STRING
        # elif target_type.endswith("integer"):
        #     type_node = XSD.integer
        # elif target_type.endswith("float"):
        #     type_node = XSD.float
        # elif target_type.endswith("string"):
        #     type_node = XSD.string
        # else:
        #     raise ValueError("Unexpected literal type:" + target_type)
        self._add_triple(r_constraint_node,
                         _R_SHACL_DATATYPE_PROP,
                         URIRef(target_type))

    def _add_node_shape(self, r_constraint_node, target_type):
        self._add_triple(r_constraint_node,
                         _R_SHACL_NODE_PROP,
                         self._generate_shape_uri(shape_name=target_type))

    def _add_nodeKind_macro(self, r_constraint_node, target_type):
        type_node = _MACRO_MAPPING[target_type]
        if type_node is not None:
            self._add_triple(r_constraint_node,
                             _R_SHACL_NODEKIND_PROP,
                             type_node)

    def _add_node_type(self, statement, r_constraint_node):
        #  sh:dataType for literal types
        #  sh:nodeKind for IRI or similar macros.
        #  sh:node for a shape
        # if self._is_literal(statement.st_type):
        #     self._add_dataType_literal(r_constraint_node=r_constraint_node,
        #                                target_type=statement.st_type)
        if self._is_macro(statement.st_type):
            self._add_nodeKind_macro(r_constraint_node=r_constraint_node,
                                     target_type=statement.st_type)
        elif self._is_a_shape(statement.st_type):
            self._add_node_shape(r_constraint_node=r_constraint_node,
                                 target_type=statement.st_type)
        else:  # It should be a literal
            self._add_dataType_literal(r_constraint_node=r_constraint_node,
                                       target_type=statement.st_type)
        # else:
        #     raise ValueError("Check here: ")


    def _min_occurs_from_cardinality(self, cardinality):
        if cardinality in [KLEENE_CLOSURE, OPT_CARDINALITY]:
            return None
        elif cardinality == POSITIVE_CLOSURE:
            return 1
        else:
            return cardinality

    def _max_occurs_from_cardinality(self, cardinality):
        if cardinality in [KLEENE_CLOSURE, POSITIVE_CLOSURE]:
            return None
        elif cardinality == OPT_CARDINALITY:
            return 1
        else:
            return cardinality

    def _generate_r_literal(self, value, l_type):
        return Literal(value, datatype=self._map_rdflib_datatype(l_type))

    def _map_rdflib_datatype(self, l_type):
        if l_type == _INTEGER:
            return XSD.integer
        elif l_type == _STRING:
            return XSD.string
        else:
            raise ValueError("Having troubles recognizing this literal type", l_type, ". "
                        "Is it well-formed? If you think so, add a GitHub issue. ")

    def _add_min_occurs(self, r_constraint_node, min_occurs):
        self._add_triple(r_constraint_node,
                         _R_SHACL_MIN_COUNT_PROP,
                         self._generate_r_literal(value=min_occurs,
                                                  l_type=_INTEGER))

    def _add_max_occurs(self, r_constraint_node, max_occurs):
        self._add_triple(r_constraint_node,
                         _R_SHACL_MAX_COUNT_PROP,
                         self._generate_r_literal(value=max_occurs,
                                                  l_type=_INTEGER))

    def _add_cardinality(self, statement, r_constraint_node):
        min_occurs = self._min_occurs_from_cardinality(statement.cardinality)
        max_occurs = self._max_occurs_from_cardinality(statement.cardinality)
        if min_occurs is not None:
            self._add_min_occurs(r_constraint_node=r_constraint_node,
                                 min_occurs=min_occurs)
        if max_occurs is not None:
            self._add_max_occurs(r_constraint_node=r_constraint_node,
                                 max_occurs=max_occurs)

    def _add_bnode_property(self, r_shape_uri, r_constraint_node):
        self._add_triple(r_shape_uri, _R_SHACL_PROPERTY_PROP, r_constraint_node)
        self._add_triple(r_constraint_node, RDF.type, _R_SHACL_PROPERTY_SHAPE_URI)

    def _generate_shape_uri(self, shape_name):
        if shape_name.startswith(_EXPECTED_SHAPE_BEGINING) and shape_name.endswith(_EXPECTED_SHAPE_ENDING):
            return URIRef(shape_name[2:-1])  # Excluding  "@<"  and ">
        raise ValueError("Unknown error, having trouble with a shape label:", shape_name,
                         "Add a GitHub issue to github with your input to have this review and fixed.")

    def _add_shape_uri(self, r_shape_uri):
        self._add_triple(r_shape_uri, RDF.type, _R_SHACL_SHAPE_URI)

    def _add_triple(self, s, p, o):
        self._g_shapes.add((s, p, o))

    @staticmethod
    def _generate_bnode():
        return BNode()

    #################### OUTPUT

    def _produce_output(self):
        if self._wikidata_annotation:
            return self._produce_wikidata_annotation_output()
        # destination = None if self._string_return else self._target_file
        if self._string_return:
            return self._g_shapes.serialize(format="turtle")
        else:
            self._g_shapes.serialize(destination=self._target_file, format="turtle")


    def _produce_wikidata_annotation_output(self):
        result = self._g_shapes.serialize(format="turtle")
        result = wikidata_annotation(raw_input=result,
                                     string_return=self._string_return,
                                     out_file=self._target_file,
                                     format=TURTLE_FORMAT,
                                     rdfs_comments=False)
        if self._string_return:
            return result

