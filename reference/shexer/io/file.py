def read_file(file_path):
    with open(file_path, "r") as in_stream:
        return in_stream.read()