import re

from shexer.core.profiling.class_profiler import RDF_TYPE_STR

from shexer.model.property import Property
from shexer.utils.uri import remove_corners, prefixize_uri_if_possible
from shexer.utils.shapes import prefixize_shape_name_if_possible
from shexer.io.shex.formater.consts import SPACES_LEVEL_INDENTATION
from shexer.io.wikidata import wikidata_annotation
from shexer.io.file import read_file
from shexer.consts import RATIO_INSTANCES, ABSOLUTE_INSTANCES, MIXED_INSTANCES, ALL_EXAMPLES, SHAPE_EXAMPLES, CONSTRAINT_EXAMPLES

from wlighter import SHEXC_FORMAT

_MODES_REPORT_INSTANCES = [ABSOLUTE_INSTANCES, MIXED_INSTANCES]
_EXAMPLE_CONSTRAINT_TEMPLATE = '// rdfs:comment {} ;'
_EXAMPLE_INSTANCE_TEMPLATE = " // rdfs:comment {}"

_INIT_URI_PATTERN = re.compile("http[s]?\://")


class ShexSerializer(object):

    def __init__(self, target_file, shapes_list, namespaces_dict=None, string_return=False,
                 instantiation_property_str=RDF_TYPE_STR, disable_comments=False, wikidata_annotation=False,
                 instances_report_mode=RATIO_INSTANCES, detect_minimal_iri=False, shape_example_features=None,
                 examples_mode=None, inverse_paths=False):
        self._target_file = target_file
        self._shapes_list = shapes_list
        self._lines_buffer = []
        self._namespaces_dict = namespaces_dict if namespaces_dict is not None else {}
        self._string_return = string_return
        self._instantiation_property_str = self._decide_instantiation_property(instantiation_property_str)
        self._disable_comments = disable_comments
        self._wikidata_annotation = wikidata_annotation
        self._instances_report_mode = instances_report_mode
        self._detect_minimal_iri = detect_minimal_iri
        self._examples_mode = examples_mode
        self._shape_example_features = shape_example_features
        self._inverse_paths = inverse_paths

        self._string_result = ""

    def serialize_shapes(self):

        self._reset_target_file()
        self._serialize_namespaces()
        for a_shape in self._shapes_list:
            self._serialize_shape(a_shape)
        self._flush()
        if self._wikidata_annotation:
            self._annotate_wikidata_ids_in_result()
        if self._string_return:
            return self._string_result

    @staticmethod
    def _decide_instantiation_property(instantiation_property_str):
        if instantiation_property_str == None:
            return RDF_TYPE_STR
        if type(instantiation_property_str) == Property:
            return str(instantiation_property_str)
        if type(instantiation_property_str) == str:
            return remove_corners(a_uri=instantiation_property_str,
                                  raise_error_if_no_corners=False)
        raise ValueError("Unrecognized param type to define instantiation property")

    def _annotate_wikidata_ids_in_result(self):
        self._string_result = wikidata_annotation(raw_input=self._get_raw_input_for_wikidata_annotation(),
                                                  string_return=self._string_return,
                                                  out_file=self._target_file,
                                                  format=SHEXC_FORMAT,
                                                  rdfs_comments=True)

    def _get_raw_input_for_wikidata_annotation(self):
        if self._string_return:
            return self._string_result
        return read_file(self._target_file)

    def _serialize_namespaces(self):
        for a_namespace in self._namespaces_dict:
            self._write_line(self._prefix_line(a_namespace), 0)
        self._write_line("", 0)

    def _prefix_line(self, namespace_key):
        return "PREFIX " + self._namespaces_dict[namespace_key] + ": <" + namespace_key + ">"

    def _serialize_empty_namespace(self):
        self._write_line("PREFIX : <http://weso.es/shapes/>")

    def _serialize_shape(self, a_shape):
        self._serialize_shape_name(a_shape)
        self._serialize_opening_of_rules()
        self._serialize_shape_rules(a_shape)
        self._serialize_closure_of_rules(a_shape)
        self._serialize_shape_gap()

    def _flush(self):
        self._write_lines_buffer()

    def _write_line(self, a_line, indent_level=0):
        self._lines_buffer.append(self._indentation_spaces(indent_level) + a_line + "\n")
        if len(self._lines_buffer) >= 5000:
            self._write_lines_buffer()
            self._lines_buffer = []

    def _reset_target_file(self):
        if self._string_return:
            return
        with open(self._target_file, "w") as out_stream:
            out_stream.write("")  # Is this necessary? maybe enough to open it in 'w' mode?

    def _write_lines_buffer(self):
        if self._string_return:
            self._string_result += "".join(self._lines_buffer)
        else:
            with open(self._target_file, "a") as out_stream:
                for a_line in self._lines_buffer:
                    out_stream.write(a_line)

    def _indentation_spaces(self, indent_level):
        result = ""
        for i in range(0, indent_level):
            result += SPACES_LEVEL_INDENTATION
        return result

    def _serialize_shape_rules(self, a_shape):
        if a_shape.n_statements == 0:
            return
        self._tune_statement_examples_if_needed(a_shape)
        statements = [a_statement for a_statement in a_shape.yield_statements()]

        for i in range(0, len(statements) - 1):
            for line_indent_tuple in statements[i]. \
                    get_tuples_to_serialize_line_indent_level(is_last_statement_of_shape=False,
                                                              namespaces_dict=self._namespaces_dict):
                self._write_line(a_line=line_indent_tuple[0],
                                 indent_level=line_indent_tuple[1])
        for line_indent_tuple in statements[len(statements) - 1]. \
                get_tuples_to_serialize_line_indent_level(is_last_statement_of_shape=True,
                                                          namespaces_dict=self._namespaces_dict):
            self._write_line(a_line=line_indent_tuple[0],
                             indent_level=line_indent_tuple[1])

    def _tune_statement_examples_if_needed(self, a_shape):
        if self._examples_mode not in [ALL_EXAMPLES, CONSTRAINT_EXAMPLES]:
            return
        self._add_statement_examples(a_shape)

    def _add_statement_examples(self, a_shape):
        for a_statement in a_shape.yield_statements():
            if a_statement.st_property != self._instantiation_property_str:
                comment = _EXAMPLE_CONSTRAINT_TEMPLATE.format(
                    self._turn_str_comment_into_proper_rdf(
                        self._get_node_constraint_example_no_inverse(a_shape, a_statement) if not self._inverse_paths
                        else self._get_node_constraint_example_inverse(a_shape, a_statement)
                    )
                )

                a_statement.add_comment(comment, insert_first=True)


    def _turn_str_comment_into_proper_rdf(self, str_object_to_transform):
        """
        If it's a whole prefixed URI, return it as it is.
        If it is a literal, surround it with quotes.
        If it starts with http(s)://, surround it with corners.
        """

        if " " not in str_object_to_transform and "".count(":") == 1:
            return str_object_to_transform
        elif _INIT_URI_PATTERN.match(str_object_to_transform):
            prefixed = prefixize_uri_if_possible(str_object_to_transform, namespaces_prefix_dict=self._namespaces_dict, corners=False)
            if prefixed == str_object_to_transform:
                return "<"+str_object_to_transform+">"
            else:
                return prefixed
        else:
            return '"' + str_object_to_transform + '"'

    def _get_node_constraint_example_no_inverse(self, shape, statement):
        candidate = self._shape_example_features.get_constraint_example(shape_id=shape.class_uri,
                                                                        prop=statement.st_property)
        if candidate.startswith("http"):  # Let's assume this means that it is an URI
            candidate = prefixize_uri_if_possible(target_uri=candidate,
                                                  namespaces_prefix_dict=self._namespaces_dict,
                                                  corners=False)
        return candidate

    def _get_node_constraint_example_inverse(self, shape, statement):
        candidate = self._shape_example_features.get_constraint_example(shape_id=shape.class_uri,
                                                                        prop=statement.st_property,
                                                                        inverse=statement.is_inverse)
        if candidate.startswith("https://"):  # Let's assume this means that it is a URI
            candidate = prefixize_uri_if_possible(target_uri=candidate,
                                                  namespaces_prefix_dict=self._namespaces_dict,
                                                  corners=False)
        return candidate


    def _serialize_shape_name(self, a_shape):
        self._write_line(

            prefixize_shape_name_if_possible(a_shape_name=a_shape.name,
                                             namespaces_prefix_dict=self._namespaces_dict) +
            self._minimal_iri(a_shape=a_shape) +
            self._instance_count(a_shape) 
        )

    def _serialize_example(self, a_shape):
        if self._examples_mode not in [ALL_EXAMPLES, SHAPE_EXAMPLES]:
            return ""
        candidate = self._shape_example_features.shape_example(shape_id=a_shape.class_uri)
        prefixed = prefixize_uri_if_possible(candidate, namespaces_prefix_dict=self._namespaces_dict, corners=False)
        return _EXAMPLE_INSTANCE_TEMPLATE.format( prefixed if prefixed != candidate else f'<{candidate}>')




    def _minimal_iri(self, a_shape):
        if not self._detect_minimal_iri or self._shape_example_features.shape_min_iri(a_shape.class_uri) is None:
            return ""
        return "  [<{}>~]  AND".format(self._shape_example_features.shape_min_iri(a_shape.class_uri))

    def _instance_count(self, a_shape):
        return "   # {} instance{}.".format(a_shape.n_instances,
                                            "" if a_shape.n_instances == 1 else "s") \
            if self._instances_report_mode in _MODES_REPORT_INSTANCES and not self._disable_comments \
            else ""

    def _serialize_opening_of_rules(self):
        self._write_line("{")

    def _serialize_closure_of_rules(self, a_shape):
        self._write_line("}" + self._serialize_example(a_shape=a_shape))

    def _serialize_shape_gap(self):
        self._write_line("")
        self._write_line("")
