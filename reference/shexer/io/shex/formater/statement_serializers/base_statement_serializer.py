from shexer.io.shex.formater.consts import SPACES_GAP_BETWEEN_TOKENS, \
    COMMENT_INI, TARGET_LINE_LENGHT, SPACES_GAP_FOR_FREQUENCY, KLEENE_CLOSURE, POSITIVE_CLOSURE, OPT_CARDINALITY, SHAPE_LINK_CHAR
from shexer.model.const_elem_types import IRI_ELEM_TYPE, BNODE_ELEM_TYPE, NONLITERAL_ELEM_TYPE
from shexer.model.shape import STARTING_CHAR_FOR_SHAPE_NAME
from shexer.utils.shapes import prefixize_shape_name_if_possible

_INVERSE_SENSE_SHEXC = "^"

class BaseStatementSerializer(object):

    def __init__(self, instantiation_property_str, frequency_serializer, disable_comments=False, is_inverse=False):
        self._instantiation_property_str = instantiation_property_str
        self._disable_comments = disable_comments
        self._is_inverse = is_inverse
        self._frequency_serializer = frequency_serializer

    def serialize_statement_with_indent_level(self, a_statement, is_last_statement_of_shape, namespaces_dict):
        tuples_line_indent = []
        st_property = BaseStatementSerializer.tune_token(a_statement.st_property, namespaces_dict)
        st_target_element = self.str_of_target_element(target_element=a_statement.st_type,
                                                       st_property=a_statement.st_property,
                                                       namespaces_dict=namespaces_dict)
        cardinality = BaseStatementSerializer.cardinality_representation(
            statement=a_statement,
            out_of_comment=True)
        result = self._sense_flag() + st_property + SPACES_GAP_BETWEEN_TOKENS + st_target_element + SPACES_GAP_BETWEEN_TOKENS + \
                 cardinality + BaseStatementSerializer.closure_of_statement(is_last_statement_of_shape)

        if a_statement.cardinality not in [KLEENE_CLOSURE, OPT_CARDINALITY] and not self._disable_comments:
            result += BaseStatementSerializer.adequate_amount_of_final_spaces(result)
            result += a_statement.probability_representation()
        tuples_line_indent.append((result, 1))

        for a_comment in a_statement.comments:
            tuples_line_indent.append((a_comment, 4))

        return tuples_line_indent

    def str_of_target_element(self, target_element, st_property, namespaces_dict):
        """
        Special treatment for instantiation_property. We build a value set with an specific URI
        :param target_element:
        :param st_property:
        :param namespaces_dict:
        :return:
        """
        if st_property == self._instantiation_property_str:
            return "[" + BaseStatementSerializer.tune_token(target_element, namespaces_dict) + "]"
        return BaseStatementSerializer.tune_token(target_element, namespaces_dict)

    @staticmethod
    def tune_token(a_token, namespaces_dict):
        # TODO:  a lot to correct here for normal behaviour
        if a_token.startswith(STARTING_CHAR_FOR_SHAPE_NAME):  # Shape
            # return STARTING_CHAR_FOR_SHAPE_NAME +":" + a_token.replace(STARTING_CHAR_FOR_SHAPE_NAME, "")
            return SHAPE_LINK_CHAR \
                   + prefixize_shape_name_if_possible(a_shape_name=a_token,
                                                      namespaces_prefix_dict=namespaces_dict)
        if a_token in [IRI_ELEM_TYPE, BNODE_ELEM_TYPE, NONLITERAL_ELEM_TYPE]:  # iri, bnode, nonliteral
            return a_token
        if ":" not in a_token:
            if "<" in a_token:
                return SHAPE_LINK_CHAR + a_token
            else:
                return SHAPE_LINK_CHAR + "<" + a_token + ">"
        candidate_prefixed = BaseStatementSerializer._prefixize_uri_if_possible(uri=a_token,
                                                                                namespaces_dict=namespaces_dict)
        if candidate_prefixed is not None:
            return candidate_prefixed

        return "<" + a_token + ">"  # Complete URIs

    @staticmethod
    def _prefixize_uri_if_possible(uri, namespaces_dict):
        """
        It returns None if it doesnt find an adequate prefix

        :param uri:
        :param namespaces_dict:
        :return:
        """
        best_match = None
        for a_namespace in namespaces_dict:  # Prefixed element (all literals are prefixed elements)
            if uri.startswith(a_namespace):
                if "/" not in uri[len(a_namespace):] and \
                        "#" not in uri[len(a_namespace):]:
                    best_match = a_namespace
                    break

        return None if best_match is None else uri.replace(best_match, namespaces_dict[best_match] + ":")


    def probability_representation(self, statement):
        return COMMENT_INI + self._frequency_serializer.serialize_frequency(statement)

    @staticmethod
    def cardinality_representation(statement, out_of_comment=False):
        cardinality = statement.cardinality
        if out_of_comment and cardinality == 1:
            return ""
        if cardinality in [POSITIVE_CLOSURE, KLEENE_CLOSURE, OPT_CARDINALITY]:
            return cardinality
        else:
            return "{" + str(cardinality) + "}"

    @staticmethod
    def closure_of_statement(is_last_statement):
        if is_last_statement:
            return ""
        return ";"

    @staticmethod
    def adequate_amount_of_final_spaces(current_line):
        if len(current_line) > TARGET_LINE_LENGHT - 10:
            return SPACES_GAP_FOR_FREQUENCY
        result = ""
        for i in range(0, TARGET_LINE_LENGHT - len(current_line)):
            result += " "
        return result

    @staticmethod
    def turn_statement_into_comment(statement, namespaces_dict):
        return statement.probability_representation() + \
               " obj: " + BaseStatementSerializer.tune_token(statement.st_type,
                                                             namespaces_dict) + \
               ". Cardinality: " + statement.cardinality_representation()

    def _sense_flag(self):
        return "" if not self._is_inverse else _INVERSE_SENSE_SHEXC + SPACES_GAP_BETWEEN_TOKENS
