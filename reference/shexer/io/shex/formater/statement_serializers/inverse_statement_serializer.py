from shexer.io.shex.formater.statement_serializers.base_statement_serializer import BaseStatementSerializer, \
    SPACES_GAP_BETWEEN_TOKENS

#
# class InverseStatementSerializer(BaseStatementSerializer):
#
#     def __init__(self, ref_statement_serializer):
#         super().__init__(ref_statement_serializer._instantiation_property_str)
#         self._ref_statement_serializer = ref_statement_serializer
#
#     def serialize_statement_with_indent_level(self, a_statement, is_last_statement_of_shape, namespaces_dict):
#         base_result = super().serialize_statement_with_indent_level(
#             a_statement=a_statement,
#             is_last_statement_of_shape=is_last_statement_of_shape,
#             namespaces_dict=namespaces_dict)
#         if len(base_result) == 0:
#             return base_result
#         self._add_inverse_sense_to_first_tuple(base_result)
#         return base_result
#
#     def _add_inverse_sense_to_first_tuple(self, statement_str_indent_tuples):
#         """
#         This method modifies the input, no return needed.
#         :param statement_str_indent_tuples:
#         :return:
#         """
#         statement_str_indent_tuples[0][0] = _INVERSE_SENSE_SHEXC + \
#                                             SPACES_GAP_BETWEEN_TOKENS + \
#                                             statement_str_indent_tuples[0][0]
#
#     def _sense_flag(self):
#         return _INVERSE_SENSE_SHEXC + SPACES_GAP_BETWEEN_TOKENS
