from shexer.io.shex.formater.statement_serializers.frequency_strategy.abs_freq_serializer import AbsFreqSerializer
from shexer.io.shex.formater.statement_serializers.frequency_strategy.ratio_freq_serializer import RatioFreqSerializer
from shexer.io.shex.formater.statement_serializers.frequency_strategy.mixed_frequency_strategy import MixedFrequencyStrategy
from shexer.io.shex.formater.statement_serializers.base_statement_serializer import BaseStatementSerializer
from shexer.io.shex.formater.statement_serializers.fixed_prop_choice_statement_serializer import FixedPropChoiceStatementSerializer
from shexer.consts import RATIO_INSTANCES, ABSOLUTE_INSTANCES, MIXED_INSTANCES

class StSerializerFactory(object):
    """
    This factory offers public method with Singletons*. They are not really singletons, as a battery
    of objects are always initialized, no matter which calls the factory receives.

    But the point here is that there is only one isntance of each type of serializer.

    """

    def __init__(self, freq_mode, decimals, instantiation_property_str, disable_comments):
        self._freq_serializer = self._build_freq_serializer(freq_mode=freq_mode,
                                                            decimals=decimals)

        self._direct_base = BaseStatementSerializer(
                instantiation_property_str=instantiation_property_str,
                disable_comments=disable_comments,
                is_inverse=False,
                frequency_serializer=self._freq_serializer)
        self._inverse_base = BaseStatementSerializer(
                instantiation_property_str=instantiation_property_str,
                disable_comments=disable_comments,
                is_inverse=True,
                frequency_serializer=self._freq_serializer)
        self._direct_choice = FixedPropChoiceStatementSerializer(
                instantiation_property_str=instantiation_property_str,
                disable_comments=disable_comments,
                is_inverse=False,
                frequency_serializer=self._freq_serializer)
        self._inverse_choice = FixedPropChoiceStatementSerializer(
                instantiation_property_str=instantiation_property_str,
                disable_comments=disable_comments,
                is_inverse=True,
                frequency_serializer=self._freq_serializer)

    def get_base_serializer(self, is_inverse):
        return self._direct_base if not is_inverse else self._inverse_base

    def get_choice_serializer(self, is_inverse):
        return self._direct_choice if not is_inverse else self._inverse_choice

    def _build_freq_serializer(self, freq_mode, decimals):
        if freq_mode == RATIO_INSTANCES:
            return RatioFreqSerializer(decimals=decimals)
        elif freq_mode == ABSOLUTE_INSTANCES:
            return AbsFreqSerializer()
        elif freq_mode == MIXED_INSTANCES:
            return MixedFrequencyStrategy(decimals=decimals)
        else:
            raise ValueError("Unrecognized frequency strategy for serialization. "
                             "Check you used a valid value in the instances_report_mode param")
