from shexer.io.shex.formater.statement_serializers.frequency_strategy.base_frequency_strategy import BaseFrequencyStrategy

class RatioFreqSerializer(BaseFrequencyStrategy):

    def __init__(self, decimals=-1):
        """

        :param decimals: it indicates the number of decimals to use to express ratios.
                        When a negative number is provided, decimals won't be controlled
        """
        self._decimals=decimals
        if decimals < 0:
            self.serialize_frequency = self._serialize_freq_unbounded
        elif decimals ==0:
            self.serialize_frequency = self._serialize_freq_int
        else:
            self.serialize_frequency = self._serialize_freq_decimals


    def serialize_frequency(self, statement):
        raise NotImplementedError("This function will be initialized with a callback during the __init__")

    def _serialize_freq_unbounded(self, statement):
        return str(statement.probability * 100) + " %"

    def _serialize_freq_decimals(self, statement):
        pattern = "{:." + str(self._decimals) +"f} %"
        return pattern.format(statement.probability*100)

    def _serialize_freq_int(self, statement):
        return str(int(statement.probability * 100)) + " %"
