
from shexer.io.shex.formater.statement_serializers.frequency_strategy.base_frequency_strategy import BaseFrequencyStrategy

class AbsFreqSerializer(BaseFrequencyStrategy):

    def serialize_frequency(self, statement):
        return str(statement.n_occurences) + " instance{}.".format(
            "" if statement.n_occurences == 1
            else "s"
        )




