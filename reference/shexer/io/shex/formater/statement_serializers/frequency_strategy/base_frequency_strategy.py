
class BaseFrequencyStrategy(object):


    def serialize_frequency(self, statement):
        raise NotImplementedError("This should be implemented in child classes")