from shexer.io.shex.formater.statement_serializers.frequency_strategy.base_frequency_strategy import BaseFrequencyStrategy
from shexer.io.shex.formater.statement_serializers.frequency_strategy.abs_freq_serializer import AbsFreqSerializer
from shexer.io.shex.formater.statement_serializers.frequency_strategy.ratio_freq_serializer import RatioFreqSerializer

class MixedFrequencyStrategy(BaseFrequencyStrategy):

    def __init__(self, decimals=-1):
        self._abs_strategy = AbsFreqSerializer()
        self._ratio_strategy = RatioFreqSerializer(decimals=decimals)

    def serialize_frequency(self, statement):
        # The abs_strategy return a trailing dot that we want to skip. That why I use slicing here
        return self._ratio_strategy.serialize_frequency(statement) + \
               " (" + self._abs_strategy.serialize_frequency(statement)[:-1] + ")."


