from shexer.io.shex.formater.statement_serializers.base_statement_serializer import BaseStatementSerializer
from shexer.io.shex.formater.consts import SPACES_GAP_BETWEEN_TOKENS, KLEENE_CLOSURE, OPT_CARDINALITY


class FixedPropChoiceStatementSerializer(BaseStatementSerializer):

    def __init__(self, instantiation_property_str, frequency_serializer, disable_comments=False, is_inverse=False):
        super(FixedPropChoiceStatementSerializer, self).__init__(instantiation_property_str=instantiation_property_str,
                                                                 disable_comments=disable_comments,
                                                                 is_inverse=is_inverse,
                                                                 frequency_serializer=frequency_serializer)

    def serialize_statement_with_indent_level(self, a_statement, is_last_statement_of_shape, namespaces_dict):
        tuples_line_indent = []
        st_property = BaseStatementSerializer.tune_token(a_statement.st_property, namespaces_dict)
        st_target_elements = []
        for a_type in a_statement.st_types:
            st_target_elements.append(self.str_of_target_element(target_element=a_type,
                                                                 st_property=a_statement.st_property,
                                                                 namespaces_dict=namespaces_dict))

        content_line = self._sense_flag() + st_property + SPACES_GAP_BETWEEN_TOKENS
        content_line += (SPACES_GAP_BETWEEN_TOKENS + "OR" + SPACES_GAP_BETWEEN_TOKENS).join(st_target_elements)
        content_line += SPACES_GAP_BETWEEN_TOKENS + BaseStatementSerializer.cardinality_representation(
            statement=a_statement,
            out_of_comment=True)
        content_line += ";" if not is_last_statement_of_shape else ""
        tuples_line_indent.append((content_line, 1))


        for a_comment in a_statement.comments:
            tuples_line_indent.append((a_comment, 4))
        return tuples_line_indent


    @staticmethod
    def turn_statement_into_comment(statement, namespaces_dict):
        return statement.probability_representation() + \
               " with cardinality " + statement.cardinality_representation()
