from rdflib.graph import Graph, URIRef, Literal, BNode
from shexer.io.graph.yielder.base_triples_yielder import BaseTriplesYielder
from shexer.consts import N3, TURTLE, RDF_XML, NT, JSON_LD, ZIP, GZ, XZ

from shexer.model.Literal import Literal as model_Literal
from shexer.model.IRI import IRI as model_IRI
from shexer.model.bnode import BNode as model_BNode
from shexer.model.property import Property as model_Property

from shexer.utils.uri import LANG_STRING_TYPE, STRING_TYPE
from shexer.utils.compression import get_content_gz_file, get_content_zip_internal_file, get_content_xz_file

_SUPPORTED_FORMATS = [N3, TURTLE, RDF_XML, NT, JSON_LD]

_XML_WRONG_URI = "http://www.w3.org/XML/1998/namespace"


class RdflibTripleYielder(BaseTriplesYielder):
    def __init__(self, rdflib_graph, namespaces_dict=None):
        super().__init__()
        self._rdflib_graph = rdflib_graph
        self._namespaces_dict = namespaces_dict if namespaces_dict is not None else {}
        self._triples_count = 0

        self._prefixes_parsed = False

    def yield_triples(self, parse_namespaces=True):
        self._reset_count()
        tmp_graph = self._get_tmp_graph()
        if parse_namespaces:
            self._integrate_namespaces_from_parsed_graph(tmp_graph, self._namespaces_dict)
            self._prefixes_parsed = True
        for sub, pred, obj in tmp_graph:
            yield (
                self._turn_rdflib_token_into_model_obj(sub),
                self._turn_rdflib_prop_into_model_obj(pred),
                self._turn_rdflib_token_into_model_obj(obj)
            )
            self._triples_count += 1

    @property
    def rdflib_graph(self):
        return self._rdflib_graph


    def _turn_rdflib_token_into_model_obj(self, rdflib_obj):
        if type(rdflib_obj) == URIRef:
            return model_IRI(str(rdflib_obj))
        elif type(rdflib_obj) == Literal:
            return self._turn_into_model_literal(rdflib_obj)
        elif type(rdflib_obj) == BNode:
            return model_BNode(identifier=str(rdflib_obj))
        else:
            raise ValueError("Not recognized type of rdflib element: " + type(rdflib_obj) + " ( " + str(rdflib_obj) + " )")

    def _turn_rdflib_prop_into_model_obj(self, rdflib_obj):
        if type(rdflib_obj) == URIRef:
            return model_Property(str(rdflib_obj))
        else:
            raise ValueError("Trying to convert into a model property en element which is not "
                             "supposed to be a property: " + type(rdflib_obj) + " ( " + str(rdflib_obj) + " )")

    def _get_tmp_graph(self):
        return self._rdflib_graph

    @staticmethod
    def _integrate_namespaces_from_parsed_graph(a_graph, namespaces_dict):

        for a_prefix_namespace_tuple in a_graph.namespaces():
            candidate_uri = str(a_prefix_namespace_tuple[1])
            if candidate_uri not in namespaces_dict:
                if candidate_uri == _XML_WRONG_URI:  # XML fix...
                    candidate_uri += "/"             # XML fix...
                namespaces_dict[candidate_uri] = str(a_prefix_namespace_tuple[0])
            # There is no else here. In case of conflict between the parsed content and the dict provided by the user,
            # the user's one have priority


    @staticmethod
    def _turn_into_model_literal(rdflib_literal):
        content = str(rdflib_literal)
        if rdflib_literal.language is not None:
            return model_Literal(content='"' + content + '"@' + rdflib_literal.language,
                                 elem_type=LANG_STRING_TYPE)
        return model_Literal(content=content,
                             elem_type=str(rdflib_literal.datatype)
                             if rdflib_literal.datatype is not None
                             else STRING_TYPE)


    @property
    def yielded_triples(self):
        return self._triples_count

    @property
    def error_triples(self):
        return 0  # With rdflib, a single error will cause to fail the parsing process


    @property
    def namespaces(self):
        if not self._prefixes_parsed:
            tmp_graph = self._get_tmp_graph()
            self._integrate_namespaces_from_parsed_graph(tmp_graph, self._namespaces_dict)
            self._prefixes_parsed = True
        return self._namespaces_dict


    def _reset_count(self):
        self._triples_count = 0


class RdflibParserTripleYielder(RdflibTripleYielder):

    def __init__(self, input_format=TURTLE, source=None, allow_untyped_numbers=False, raw_graph=None,
                 namespaces_dict=None, compression_mode=None, zip_archive_file=None):
        """

        :param input_format:
        :param source: It can be local (a file path) or remote (an url to download some content)
        :param namespaces_to_ignore:
        :param allow_untyped_numbers:
        :param raw_graph:
        :param namespaces_dict:
        """

        super().__init__(rdflib_graph=None,
                         namespaces_dict=namespaces_dict)
        self._check_input_format(input_format)
        self._input_format = input_format
        self._source = source
        self._compression_mode = compression_mode
        self._zip_archive_file = zip_archive_file
        self._allow_untyped_numbers = allow_untyped_numbers
        self._raw_graph = raw_graph
        self._namespaces_dict = namespaces_dict if namespaces_dict is not None else {}
                                              # This object can be modified (and will be consumed externaly)
                                              # when parse_namespaces in yiled_triples() is set to True

        self._triples_count = 0

        self._prefixes_parsed = False


    def _get_tmp_graph(self):
        result = Graph()
        if self._compression_mode is not None:
            self._parse_compressed_files(result)
        elif self._source is not None:
            result.parse(source=self._source, format=self._input_format)
        else:
            result.parse(data=self._raw_graph, format=self._input_format)
        return result

    def _parse_compressed_files(self, rdflib_graph):
        if self._compression_mode == GZ:
            rdflib_graph.parse(data=get_content_gz_file(self._source), format=self._input_format)
        elif self._compression_mode == ZIP:
            rdflib_graph.parse(data=get_content_zip_internal_file(base_archive=self._zip_archive_file,
                                                                  target_file=self._source),
                               format=self._input_format)
        elif self._compression_mode == XZ:
            rdflib_graph.parse(data=get_content_xz_file(self._source), format=self._input_format)
        else:
            raise ValueError("Unknown compression format")

    @staticmethod
    def _check_input_format(input_format):
        if input_format not in _SUPPORTED_FORMATS:
            raise ValueError("Unsupported input format: " + input_format)





