from shexer.io.graph.yielder.base_triples_yielder import BaseTriplesYielder
from shexer.consts import RDF_TYPE
from shexer.utils.triple_yielders import tune_token, tune_prop, tune_subj
from shexer.utils.uri import add_corners_if_needed, add_corners_if_it_is_an_uri


class SgraphFromSelectorsTripleYielder(BaseTriplesYielder):

    def __init__(self, shape_map, depth=1, classes_at_last_level=True, instantiation_property=RDF_TYPE,
                 strict_syntax_with_corners=False, allow_untyped_numbers=False, inverse_paths=False):
        super().__init__()
        self._shape_map = shape_map
        self._depth = depth
        self._classes_at_last_level = classes_at_last_level
        self._instantiation_property = instantiation_property
        self._strict_syntax_with_corners = strict_syntax_with_corners
        self._allow_untyped_numbers = allow_untyped_numbers
        self._inverse_paths = inverse_paths


    def yield_triples(self):
        target_nodes = self._collect_every_target_node()
        sgraph = self._shape_map.get_sgraph()
        for a_triple in self._yield_relevant_sgraph_triples(target_nodes, sgraph):
            yield a_triple


    def _collect_every_target_node(self):
        result = {}  # insertion-ordered de-duplication: the order of the nodes must not depend on str hashing
        for an_item in self._shape_map.yield_items():
            for a_node in an_item.node_selector.get_target_nodes():
                result[a_node] = None
        return list(result)


    def _yield_relevant_sgraph_triples(self, target_nodes, sgraph):
        for a_triple in self._yield_relevant_direct_triples(target_nodes, sgraph):
            yield a_triple
        if self._inverse_paths:
            for a_triple in self._yield_relevant_inverse_triples(target_nodes, sgraph):
                yield a_triple

    def _yield_relevant_direct_triples(self, target_nodes, sgraph):
        for s, p, o in sgraph.yield_p_o_triples_of_target_nodes(target_nodes=target_nodes,
                                                                depth=self._depth,
                                                                classes_at_last_level=self._classes_at_last_level,
                                                                instantiation_property=self._instantiation_property,
                                                                already_visited=None,
                                                                strict_syntax_with_uri_corners=self._strict_syntax_with_corners):
            yield (tune_subj(a_token=add_corners_if_it_is_an_uri(s)),
                   tune_prop(a_token=add_corners_if_needed(p)),
                   tune_token(a_token=add_corners_if_it_is_an_uri(o),
                              allow_untyped_numbers=self._allow_untyped_numbers)
                   )

    def _yield_relevant_inverse_triples(self, target_nodes, sgraph):
        for s, p, o in sgraph.yield_s_p_triples_of_target_nodes(target_nodes=target_nodes,
                                                                depth=self._depth,
                                                                classes_at_last_level=self._classes_at_last_level,
                                                                instantiation_property=self._instantiation_property,
                                                                already_visited=None,
                                                                strict_syntax_with_uri_corners=self._strict_syntax_with_corners):
            yield (tune_subj(a_token=add_corners_if_it_is_an_uri(s)),
                   tune_prop(a_token=add_corners_if_needed(p)),
                   tune_token(a_token=add_corners_if_it_is_an_uri(o),
                              allow_untyped_numbers=self._allow_untyped_numbers)
                   )








