from shexer.utils.log import log_msg
from shexer.utils.triple_yielders import tune_token, tune_prop
from shexer.io.graph.yielder.base_triples_yielder import BaseTriplesYielder


class TsvNtTriplesYielder(BaseTriplesYielder):

    def __init__(self, source_file, allow_untyped_numbers=False, raw_graph=None,
                 compression_mode=None, zip_base_archive=None):
        super(TsvNtTriplesYielder, self).__init__()
        self._source_file = source_file
        self._triples_count = 0
        self._error_triples = 0
        self._allow_untyped_numbers = allow_untyped_numbers
        self._line_reader = self._decide_line_reader(source_file=source_file,
                                                     raw_graph=raw_graph,
                                                     compression_mode=compression_mode,
                                                     zip_base_archive=zip_base_archive)
        # self.yield_triples = self._yield_triples_not_excluding_namespaces if namespaces_to_ignore is None\
        #     else self._yield_triples_excluding_namespaces


    def yield_triples(self):
        self._reset_count()
        for a_line in self._line_reader.read_lines():
            tokens = self._look_for_tokens(a_line.strip())
            if len(tokens) != 3:
                self._error_triples += 1
                log_msg(verbose=False, msg="This line caused error: " + a_line)
            else:
                try:
                    yield (
                    tune_token(tokens[0]), tune_prop(tokens[1]), tune_token(tokens[2], allow_untyped_numbers=True))
                    self._triples_count += 1
                except ValueError as ve:
                    log_msg(verbose=False, msg=str(ve) + "This line caused error: " + a_line)
                # if self._triples_count % 10000 == 0:
                #     print("Reading..." + self._triples_count)

    def _look_for_tokens(self, str_line):
        return str_line.split("\t")

    @property
    def yielded_triples(self):
        return self._triples_count

    @property
    def error_triples(self):
        return self._error_triples

    def _reset_count(self):
        self._error_triples = 0
        self._triples_count = 0

    # def yield_triples(self):
    #     self._reset_parsing()
    #     for a_line in self._line_reader.read_lines():
    #         tokens = self._look_for_tokens(a_line.strip())
    #         if len(tokens) != 3:
    #             self._error_triples += 1
    #             log_msg(msg="This line caused error: " + a_line,
    #                          source=self._source_file)
    #         else:
    #             try:
    #                 yield (tune_token(tokens[0]),
    #                        tune_prop(tokens[1]),
    #                        tune_token(tokens[2], allow_untyped_numbers=self._allow_untyped_numbers))
    #                 self._triples_count += 1
    #             except ValueError as ve:
    #                 log_msg(msg=ve.message + "This line caused error: " + a_line,
    #                              source=self._source_file)
    #             if self._triples_count % 10000 == 0:
    #                 print("Reading..." + self._triples_count)

    # def _yield_triples_excluding_namespaces(self):
    #     self._reset_parsing()
    #     for a_line in self._line_reader.read_lines():
    #         tokens = self._look_for_tokens(a_line.strip())
    #         if len(tokens) != 3:
    #             self._error_triples += 1
    #             log_msg(msg="This line caused error: " + a_line,
    #                          source=self._source_file)
    #         else:
    #             try:
    #                 candidate_triple = (tune_token(tokens[0]),
    #                                     tune_prop(tokens[1]),
    #                                     tune_token(tokens[2], allow_untyped_numbers=True))
    #                 if not check_if_property_belongs_to_namespace_list(str(candidate_triple[1]),
    #                                                                    namespaces=self._namespaces_to_ignore):
    #                     yield candidate_triple
    #
    #                 self._triples_count += 1
    #             except ValueError as ve:
    #                 log_msg(msg=ve.message + "This line caused error: " + a_line,
    #                              source=self._source_file)
    #             if self._triples_count % 10000 == 0:
    #                 print("Reading..." + self._triples_count)
