from shexer.io.graph.yielder.base_triples_yielder import BaseTriplesYielder


class MultifileBaseTripleYielder(BaseTriplesYielder):

    def __init__(self, list_of_files,
                 namespaces_to_ignore=None,
                 allow_untyped_numbers=False,
                 compression_mode=None,
                 zip_base_archive=None):
        super(BaseTriplesYielder, self).__init__()
        self._list_of_files = list_of_files
        self._namespaces_to_ignore = namespaces_to_ignore
        self._allow_untyped_numbers = allow_untyped_numbers
        self._compression_mode = compression_mode
        self._zip_base_archive = zip_base_archive

        self._triples_yielded_from_used_yielders = 0
        self._error_triples_from_used_yielders = 0
        self._last_yielder = None


    def yield_triples(self, parse_namespaces=True):
        self._reset_count()
        for a_source_file in self._list_of_files:
            for a_triple in self._yield_triples_of_file(a_source_file, parse_namespaces):
                yield a_triple

    def _yield_triples_of_file(self, a_source_file, parse_namespaces=False):
        if self._last_yielder is not None:
            self._triples_yielded_from_used_yielders += self._last_yielder.yielded_triples
            self._error_triples_from_used_yielders += self._last_yielder.error_triples
        self._last_yielder = self._constructor_file_yielder(a_source_file=a_source_file)
        for a_triple in self._yield_triples_of_last_yielder(parse_namespaces):
            yield a_triple

    @property
    def yielded_triples(self):
        triples_current_yielder = 0 if self._last_yielder is None else self._last_yielder.yielded_triples
        return self._triples_yielded_from_used_yielders + triples_current_yielder

    @property
    def error_triples(self):
        errors_current_yielder = 0 if self._last_yielder is None else self._last_yielder.error_triples
        return self._error_triples_from_used_yielders  + errors_current_yielder

    def _reset_count(self):
        self._error_triples_from_used_yielders = 0
        self._triples_yielded_from_used_yielders = 0

    def _constructor_file_yielder(self, a_source_file):
        raise NotImplementedError("Implement in derived classes")
        
    def _yield_triples_of_last_yielder(self, parse_namespaces=True):
        """
        This is a default implementation for every yielrder (most of them) which ignores parse_namespaces
        :param parse_namespaces:
        :return:
        """
        for a_triple in self._last_yielder.yield_triples():
            yield a_triple



