


from shexer.io.graph.yielder.base_triples_yielder import BaseTriplesYielder


class MultiZipTriplesYielder(BaseTriplesYielder):

    def __init__(self, multiyielders):
        super().__init__()
        self._multiyielders = multiyielders

        self._triples_yielded_from_used_yielders = 0
        self._error_triples_from_used_yielders = 0
        self._last_yielder = None

        self._current_yielder = None

    def yield_triples(self, parse_namespaces=True):
        self._reset_count()
        for a_yielder in self._multiyielders:
            self._current_yielder = a_yielder
            for a_triple in a_yielder.yield_triples():
                yield a_triple
            self._triples_yielded_from_used_yielders += a_yielder.yielded_triples
            self._error_triples_from_used_yielders += a_yielder.error_triples

    @property
    def yielded_triples(self):
        triples_current_yielder = 0 if self._current_yielder is None else self._current_yielder.yielded_triples
        return self._triples_yielded_from_used_yielders + triples_current_yielder

    @property
    def error_triples(self):
        errors_current_yielder = 0 if self._current_yielder is None else self._current_yielder.error_triples
        return self._error_triples_from_used_yielders + errors_current_yielder

    def _reset_count(self):
        self._error_triples_from_used_yielders = 0
        self._triples_yielded_from_used_yielders = 0
