from shexer.io.graph.yielder.base_triples_yielder import BaseTriplesYielder
from shexer.utils.triple_yielders import check_if_property_belongs_to_namespace_list

class FilterNamespacesTriplesYielder(BaseTriplesYielder):

    def __init__(self, actual_triple_yielder, namespaces_to_ignore):
        super().__init__()
        self._actual_triple_yielder = actual_triple_yielder
        self._namespaces_to_ignore = namespaces_to_ignore


    def yield_triples(self):
        for a_triple in self._actual_triple_yielder.yield_triples():
            if self._pass_filters(a_triple):
                yield a_triple

    def _pass_filters(self, a_triple):
        return not check_if_property_belongs_to_namespace_list(str_prop=str(a_triple[1]),
                                                               namespaces=self._namespaces_to_ignore)
