from shexer.io.graph.yielder.multifile_base_triples_yielder import MultifileBaseTripleYielder
from shexer.io.graph.yielder.rdflib_triple_yielder import RdflibParserTripleYielder
from shexer.consts import TURTLE


class MultiRdfLibTripleYielder(MultifileBaseTripleYielder):

    def __init__(self, list_of_files, input_format=TURTLE, allow_untyped_numbers=False,
                 namespaces_dict=None, compression_mode=None, zip_archive_file=None):
        super(MultiRdfLibTripleYielder, self).__init__(list_of_files=list_of_files,
                                                       allow_untyped_numbers=allow_untyped_numbers)

        self._input_format = input_format
        self._namespaces_dict = namespaces_dict if namespaces_dict is not None else {}
        self._compression_mode = compression_mode
        self._zip_archive_file = zip_archive_file

    def _yield_triples_of_last_yielder(self, parse_namespaces=True):
        for a_triple in self._last_yielder.yield_triples(parse_namespaces):
            yield a_triple

    def _constructor_file_yielder(self, a_source_file):
        return RdflibParserTripleYielder(source=a_source_file,
                                         allow_untyped_numbers=self._allow_untyped_numbers,
                                         input_format=self._input_format,
                                         compression_mode=self._compression_mode,
                                         zip_archive_file=self._zip_archive_file)

    @property
    def namespaces(self):
        return self._namespaces_dict  # TODO This is not entirely correct. But this method will be rarely used
        # and can have a huge performance cost in case the graphs hadnt been parsed yet
