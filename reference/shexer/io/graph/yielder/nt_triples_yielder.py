from shexer.utils.log import log_msg
from shexer.utils.triple_yielders import tune_prop, tune_token  # , check_if_property_belongs_to_namespace_list
from shexer.io.graph.yielder.base_triples_yielder import BaseTriplesYielder


class NtTriplesYielder(BaseTriplesYielder):

    def __init__(self, source_file=None, allow_untyped_numbers=False, raw_graph=None,
                 compression_mode=None, zip_base_archive=None):

        super(NtTriplesYielder, self).__init__()
        self._source_file = source_file
        self._raw_graph = raw_graph
        self._triples_count = 0
        self._error_triples = 0
        self._allow_untyped_numbers = allow_untyped_numbers
        self._line_reader = self._decide_line_reader(source_file=source_file,
                                                     raw_graph=raw_graph,
                                                     compression_mode=compression_mode,
                                                     zip_base_archive=zip_base_archive)
        # The following ones are refs to functions. Im avoiding some comparison here.
        # self.yield_triples = self._yield_triples_not_excluding_namespaces if namespaces_to_ignore is None \
        #     else self._yield_triples_excluding_namespaces

    def yield_triples(self):
        self._reset_count()
        for a_line in self._line_reader.read_lines():
            if a_line.strip() == "" or a_line.strip().startswith("#"):  # Blank line or comment. Nothing to parse, no error
                continue
            tokens = self._look_for_tokens(a_line.strip())
            if len(tokens) != 3:
                self._error_triples += 1
                log_msg(verbose=False, msg="This line was discarded: " + a_line)
            else:
                yield (tune_token(a_token=tokens[0]),
                       tune_prop(a_token=tokens[1]),
                       tune_token(a_token=tokens[2],
                                  allow_untyped_numbers=self._allow_untyped_numbers))
                self._triples_count += 1

    def _look_for_tokens(self, str_line):
        result = []
        current_first_index = 0
        while current_first_index != len(str_line):
            if str_line[current_first_index] == "<":
                last_index = self._look_for_last_index_of_uri_token(str_line, current_first_index)
                result.append(str_line[current_first_index:last_index + 1])
                current_first_index = last_index + 1
            elif str_line[current_first_index] == '"':
                last_index = self._look_for_last_index_of_literal_token(str_line, current_first_index)
                result.append(str_line[current_first_index:last_index + 1])
                current_first_index = last_index + 1
            elif str_line[current_first_index] == '_':
                last_index = self._look_for_last_index_of_bnode_token(str_line, current_first_index)
                result.append(str_line[current_first_index:last_index + 1])
                current_first_index = last_index + 1
            elif str_line[current_first_index] == '.':
                break

            elif str_line[current_first_index].isnumeric():
                last_index = self._look_for_last_index_of_unlabelled_number_token(str_line, current_first_index)
                result.append(str_line[current_first_index:last_index + 1])
                current_first_index = last_index + 1
            else:
                current_first_index += 1

        return result

    def _look_for_last_index_of_uri_token(self, target_str, first_index):
        target_substring = target_str[first_index:]
        index_sub = target_substring.find(">")
        return index_sub + (len(target_str) - len(target_substring))

    def _look_for_last_index_of_bnode_token(self, target_str, first_index):
        index_of_blank = target_str.find(" ", first_index)
        last_index = (index_of_blank if index_of_blank != -1 else len(target_str)) - 1
        if target_str[last_index] == ".":  # A label can't end with a dot: it is the end of the statement (no blank before it)
            last_index -= 1
        return last_index

    def _look_for_last_index_of_unlabelled_number_token(self, target_str, first_index):
        index_of_blank = target_str.find(" ", first_index)
        return (index_of_blank if index_of_blank != -1 else len(target_str)) - 1

    def _look_for_last_index_of_literal_token(self, target_str, first_index):
        index_of_closing_quotes = self._look_for_index_of_closing_quotes(target_str, first_index)
        if target_str[index_of_closing_quotes + 1:index_of_closing_quotes + 4] == "^^<":  # Typed
            index_of_closing_corner = target_str.find(">", index_of_closing_quotes)
            return index_of_closing_corner if index_of_closing_corner != -1 else len(target_str) - 1
        if target_str[index_of_closing_quotes + 1:index_of_closing_quotes + 2] in ("@", "^"):
            # String labelled with language (or prefixed type). The token finishes with the next blank
            index_of_blank = target_str.find(" ", index_of_closing_quotes)
            return index_of_blank - 1 if index_of_blank != -1 else len(target_str) - 1
        return index_of_closing_quotes  # Not typed

    def _look_for_index_of_closing_quotes(self, target_str, first_index):
        """
        Index of the first quotes after first_index which are not escaped, i.e., which are
        preceded by an even number of backslashes. If there are not such quotes, the last index of the line.
        """
        index_of_quotes = target_str.find('"', first_index + 1)
        while index_of_quotes != -1:
            n_backslashes = 0
            while target_str[index_of_quotes - 1 - n_backslashes] == "\\":
                n_backslashes += 1
            if n_backslashes % 2 == 0:
                return index_of_quotes
            index_of_quotes = target_str.find('"', index_of_quotes + 1)
        return len(target_str) - 1

    @property
    def yielded_triples(self):
        return self._triples_count

    @property
    def error_triples(self):
        return self._error_triples

    def _reset_count(self):
        self._error_triples = 0
        self._triples_count = 0

