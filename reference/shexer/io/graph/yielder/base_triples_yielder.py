
from shexer.io.line_reader.file_line_reader import FileLineReader
from shexer.io.line_reader.raw_string_line_reader import RawStringLineReader
from shexer.io.line_reader.gz_line_reader import GzFileLineReader
from shexer.io.line_reader.zip_file_line_reader import ZipFileLineReader
from shexer.io.line_reader.xz_line_reader import XzFileLineReader
from shexer.utils.obj_references import check_just_one_not_none
from shexer.consts import ZIP, GZ, XZ

class BaseTriplesYielder(object):

    def __init__(self):
        pass

    def _decide_line_reader(self, raw_graph, source_file,
                            compression_mode=None,
                            zip_base_archive=None):
        check_just_one_not_none((source_file, "source_file"),
                                (raw_graph, "raw_graph"))
        if raw_graph is not None:
            return RawStringLineReader(raw_string=raw_graph)
        elif compression_mode is None:
            return FileLineReader(source_file=source_file)
        elif compression_mode == GZ:
            return GzFileLineReader(gz_file=source_file)
        elif compression_mode == ZIP:
            return ZipFileLineReader(zip_archive=zip_base_archive,
                                     zip_target=source_file)
        elif compression_mode == XZ:
            return XzFileLineReader(xz_file=source_file)
        else:
            raise ValueError("Unsupported compression mode: {}".format(compression_mode))

    def yield_triples(self):
        raise NotImplementedError("Implement this method in derived classes")