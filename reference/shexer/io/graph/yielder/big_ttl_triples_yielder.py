from shexer.io.graph.yielder.base_triples_yielder import BaseTriplesYielder
from shexer.utils.uri import remove_corners, unprefixize_uri_mandatory
from shexer.utils.triple_yielders import tune_subj, tune_prop, tune_token
import re

_OTHER_BLANKS = re.compile("[\r\n\t]")
_SEVERAL_BLANKS = re.compile("  +")
_QUOTES_FOR_LITERALS = re.compile('[^\\\]"')
_INIT_INLINE_COMMENT = re.compile(" #")
_RDF_TYPE_CONTRACTED = ["a", "rdf:type"]
_RDF_TYPE_URI = "<http://www.w3.org/1999/02/22-rdf-syntax-ns#type>"
_BOOLEANS = ["true", "false"]
_INI_BASE_URIS = ["/", "#"]
_CLOSURES = [",", ";", "."]
_S = 0
_P = 1
_O = 2

_WAITING_FOR_SUBJ = 0
_WAITING_FOR_PRED = 1
_WAITING_FOR_OBJ = 2
_NOT_WAITING = 4

"""
TTL parser that yield triples (model objects) without loading the whole graph content in 
main memory.

WARNING: This parser works with some frequent structural assumptions of turtle files that
are not part of the standard. You may get unexpected errors or unexpected results dealing
with files containing lines which represent more than one triple. Also, we assume a totally
wel--formated input. Bad-formatted may remain undetected and produce wrong triples.

Please, in case you do not need to parse huge files that do not fit in the main memory
of your computer, use RdflifTriplesYielder instead
"""


class BigTtlTriplesYielder(BaseTriplesYielder):

    def __init__(self, source_file=None, allow_untyped_numbers=True, raw_graph=None,
                 compression_mode=None, zip_base_archive=None):

        super(BigTtlTriplesYielder, self).__init__()
        self._source_file = source_file
        self._raw_graph = raw_graph
        self._triples_count = 0
        self._error_triples = 0
        self._allow_untyped_numbers = allow_untyped_numbers
        self._compression_mode = compression_mode
        self._line_reader = self._decide_line_reader(source_file=source_file,
                                                     raw_graph=raw_graph,
                                                     compression_mode=compression_mode,
                                                     zip_base_archive=zip_base_archive)
        # Support
        self._prefixes = {}
        self._base = None

        # To be used while parsing
        self._state = _WAITING_FOR_SUBJ
        self._tmp_s = None
        self._tmp_p = None
        self._tmp_o = None
        self._last_triple_jump = None

        self._triple_ready = False

    def yield_triples(self):
        self._reset_parsing()
        for a_line in self._line_reader.read_lines():
            for a_triple in self._process_line_2(a_line):
                self._triples_count += 1
                yield (
                    tune_subj(a_triple[_S],
                              raise_error_if_no_corners=False),
                    tune_prop(a_triple[_P],
                              raise_error_if_no_corners=False),
                    tune_token(a_triple[_O],
                               base_namespace=self._base,
                               allow_untyped_numbers=self._allow_untyped_numbers,
                               raise_error_if_no_corners=False)
                )

    def _clean_line(self, str_line):
        result = _OTHER_BLANKS.sub(" ", str_line)
        result = _SEVERAL_BLANKS.sub(" ", result)
        result = result.strip()
        return result if " #" not in result else self._remove_comments_if_needed(result)

    def _remove_comments_if_needed(self, str_line):
        """Remove comments in the middle of the line.
        Lines starting with # wont be erased
        """
        if '"' not in str_line:  # Comment mark and no literals, trivial case
            return str_line[:str_line.find(" #")]
        # We need to find the begining and end of the literal to avoid erasing
        # comments within literals (actual content)
        quotes_indexes = []
        count_down_quotes = 2
        for a_match in _QUOTES_FOR_LITERALS.finditer(str_line):
            quotes_indexes.append(a_match.start(0))
            count_down_quotes -= 1
            if count_down_quotes == 0:
                break
        for a_match in _INIT_INLINE_COMMENT.finditer(str_line):
            if a_match.start(0) < quotes_indexes[0] or a_match.start(0) > quotes_indexes[1]:
                return str_line[:a_match.start(0)]
        return str_line  # If this point is reached, it means that the potential comments
                         # are actual content of a string literal

    def _process_line_2(self, str_line):
        str_line = self._clean_line(str_line)
        if str_line == "":
            self._process_empty_line(str_line)
        elif str_line.startswith("@prefix"):
            self._process_prefix_line(str_line)
        elif str_line.startswith("@base"):
            self._process_base_line(str_line)
        elif str_line.startswith("#"):
            self._process_comment_line(str_line)
        else:
            for a_triple in self._process_line_with_potential_triples(str_line):
                yield a_triple

    def _process_line_with_potential_triples(self, a_line):
        next_token, next_index = self._next_line_token(a_line, 0)
        while next_token != None:
            if next_token == ",":
                if self._state == _NOT_WAITING:  # A closure only yields when there is a complete triple pending
                    yield self._current_triple()
                self._state = _WAITING_FOR_OBJ
            elif next_token == ";":
                if self._state == _NOT_WAITING:
                    yield self._current_triple()
                self._state = _WAITING_FOR_PRED
            elif next_token == ".":
                if self._state == _NOT_WAITING:  # e.g., "s p o ; ." --> the triple was already yielded by ";"
                    yield self._current_triple()
                self._state = _WAITING_FOR_SUBJ
            else:
                self._assing_tmp_element_and_promote_state(next_token)
            next_token, next_index = self._next_line_token(a_line, next_index)

    def _current_triple(self):
        return self._tmp_s, self._tmp_p, self._tmp_o

    def _assing_tmp_element_and_promote_state(self, token):
        if self._state == _WAITING_FOR_SUBJ:
            self._tmp_s = self._parse_elem(token)
            self._state = _WAITING_FOR_PRED
        elif self._state == _WAITING_FOR_PRED:
            self._tmp_p = self._parse_elem(token)
            self._state = _WAITING_FOR_OBJ
        elif self._state == _WAITING_FOR_OBJ:
            self._tmp_o = self._parse_elem(token)
            self._state = _NOT_WAITING
        else:
            raise ValueError("Malformed file. Processing an unexpected token: " + token)


    def _next_line_token(self, a_line, start_index):
        while(start_index < len(a_line) and a_line[start_index] == " "):
            start_index += 1
        if start_index >= len(a_line):
            return None, None
        if a_line[start_index] in _CLOSURES:
            return a_line[start_index], start_index + 1
        elif a_line[start_index] == "<":
            end_index = a_line.find(">", start_index)
            return self._parse_cornered_element(cornered_element=a_line[start_index:end_index+1]), end_index + 1
        elif a_line[start_index] == '"':
            end_index = self._find_next_quoted_literal_ending(a_line, start_index)
            return self._expand_prefixed_datatype(a_line[start_index:end_index+1]), end_index + 1
        else:  # could be a prefixed element, a bnode, a non-string literal... find the next blank anyway
            end_index = self._find_next_blank(a_line, start_index)
            return a_line[start_index:end_index], end_index + 1


    def _expand_prefixed_datatype(self, literal_token):
        """
        "5"^^ex:dt --> "5"^^<http://example.org/dt> , when ex: was declared with @prefix.
        Any other literal token is returned as it is.
        """
        index_type_mark = literal_token.rfind('"^^')
        if index_type_mark == -1:
            return literal_token
        datatype = literal_token[index_type_mark + 3:]
        if datatype.startswith("<") or ":" not in datatype:
            return literal_token
        prefix = datatype[:datatype.find(":")]
        if prefix not in self._prefixes:
            return literal_token
        return literal_token[:index_type_mark + 3] + "<" + self._prefixes[prefix] + datatype[len(prefix) + 1:] + ">"

    def _find_next_blank(self, target_str, start_index):
        pos = target_str.find(" ", start_index)
        return len(target_str) if pos == -1 else pos


    def _find_next_unescaped_quotes(self, target_str, start_index):
        pos = target_str.find('"', start_index)
        while pos != -1:
            if target_str[pos-1] != "\\":
                return pos  # not escaped
            # if pos >= 2 and target_str[pos-2] == '\\':
            #     return pos  # the scape is scaped, so not escaped
            if self._count_prior_backslashes(an_str=target_str,
                                             quote_pos=pos) % 2 == 0:
                return pos # the scape is scaped, so not escaped
            pos = target_str.find('"', pos+1)
        if pos == -1:
            raise ValueError("Is this line malformed? Can`t find quotes matching: " + target_str)

    def _count_prior_backslashes(self, an_str, quote_pos):
        """
        We assume that there is at least a backslash at an_str[pos-1], so pos-1 is a non-negative index of an_str
        """
        counter = 1
        quote_pos -= 2
        while quote_pos >= 0:
            if an_str[quote_pos] == "\\":
                counter += 1
            else:
                return counter
            quote_pos -= 1
        return counter


    def _find_next_quoted_literal_ending(self, target_str, start_index):
        next_quotes = self._find_next_unescaped_quotes(target_str=target_str,
                                                       start_index=start_index+1)
        if next_quotes + 1 >= len(target_str) or target_str[next_quotes + 1] == " ":
            return next_quotes
        elif target_str[next_quotes + 1] in ("^", "@"):  # ^^datatype or @language-tag
            return self._find_next_blank(target_str, next_quotes) - 1
        else:
            raise ValueError("Malformed literal? It seems like there is a problem of unmatching quotes: " + target_str)

    def _process_line(self, str_line):
        str_line = self._clean_line(str_line)
        if str_line == "":
            self._process_empty_line(str_line)
        elif '"' in str_line:
            self._process_line_with_literal(str_line)
        elif str_line.startswith("@prefix"):
            self._process_prefix_line(str_line)
        elif str_line.startswith("@base"):
            self._process_base_line(str_line)
        elif str_line.startswith("#"):
            self._process_comment_line(str_line)
        elif str_line[-1] in [",", ".", ";"]:
            if ", " in str_line[:-1]:
                # If there is a comma in a URI, it can't be followed by a blank
                self._process_multi_triple_line_commas(str_line)
            else:
                self._process_single_triple_line(str_line)
        elif " " not in str_line:
            if len(str_line) > 1:  # We are ensuring that this is not a single char, such as "," or "."
                self._process_isolated_subject(str_line)
        else:
            self._process_unknown_line(str_line)

    def _process_line_with_literal(self, line):
        first_quotes_index = line.find('"')
        s_o_line = line[:first_quotes_index].strip()
        s_o_pieces = s_o_line.split(" ")
        if len(s_o_pieces) == 2:
            self._tmp_s = self._parse_elem(s_o_pieces[0])
            self._tmp_p = self._parse_elem(s_o_pieces[1])
        elif len(s_o_pieces) == 1 and s_o_pieces[0] != "":
            self._tmp_p = self._parse_elem(s_o_pieces[0])
        # The last char MUST be in [,.;] since this lines comes stripped.
        # SO everything between first_quotes_index and line[-1], stripped
        # should be out target literal (typed or not)
        self._tmp_o = line[first_quotes_index:-1].rstrip()
        self._decide_current_triple()

    def _process_prefix_line(self, line):
        pieces = line.split(" ")
        prefix = pieces[1] if not pieces[1].endswith(":") else pieces[1][: - 1]
        base_url = remove_corners(pieces[2])
        self._prefixes[prefix] = base_url

    def _process_base_line(self, line):
        pieces = line.split(" ")
        # base_url = pieces[1] if not pieces[1].endswith(":") else pieces[1][: - 1]
        # base_url = remove_corners(pieces[2])
        self._base = remove_corners(pieces[1])

    def _process_comment_line(self, line):
        pass  # At this point, just ignore it.

    def _process_empty_line(self, line):
        pass  # At this point, just ignore it.

    def _process_unknown_line(self, line):
        self._error_triples += 1


    def _process_multi_triple_line_commas(self, line):
        pieces = line.split(" ")
        index_first_comma = 0
        for i in range(0, len(pieces)):
            if pieces[i] == ",":
                index_first_comma = i
                break
        if index_first_comma == 3:
            self._tmp_s = self._parse_elem(pieces[0])
            self._tmp_p = self._parse_elem(pieces[1])
            self._tmp_o = self._parse_elem(pieces[2])
        elif index_first_comma == 2:
            self._tmp_p = self._parse_elem(pieces[0])
            self._tmp_o = self._parse_elem(pieces[1])
        elif index_first_comma == 1:
            self._tmp_o = self._parse_elem(pieces[0])
        # else impossible?
        self._decide_current_triple()

        for i in range(index_first_comma + 2, len(pieces), 2):
            self._tmp_o = self._parse_elem(pieces[i - 1])
            self._decide_current_triple()

    def _process_single_triple_line(self, line):
        pieces = line.split(" ")
        if len(pieces) == 4:
            self._tmp_s = self._parse_elem(pieces[0])
            self._tmp_p = self._parse_elem(pieces[1])
            self._tmp_o = self._parse_elem(pieces[2])

        elif len(pieces) == 3:
            self._tmp_p = self._parse_elem(pieces[0])
            self._tmp_o = self._parse_elem(pieces[1])
        elif len(pieces) == 2:
            self._tmp_o = self._parse_elem(pieces[0])
        self._decide_current_triple()

    def _process_isolated_subject(self, line):
        # No splitt. Line is expected to contain a line with no blanks (isolated subject)
        self._tmp_s = self._parse_elem(line)
        # No need to decide triple now, incomplete element

    def _decide_current_triple(self):
        # if self._is_bnode(self._tmp_s):
        #     self._ignored_triples += 1
        # elif self._is_bnode(self._tmp_o):
        #     self._ignored_triples += 1
        # elif self._is_num_literal(self._tmp_o):
        #     self._ignored_triples += 1
        # elif self._is_boolean(self._tmp_o):
        #     self._ignored_triples += 1
        # else:
        self._triple_ready = True

    def _is_boolean(self, raw_element):
        return True if raw_element in _BOOLEANS else False

    def _is_bnode(self, a_elem):
        if a_elem[0] == "_":
            return True
        return False

    def _is_num_literal(self, elem):
        try:
            float(elem)
            return True
        except ValueError:
            return False

    def _parse_elem(self, raw_elem):
        if raw_elem[0] == "<":
            return self._parse_cornered_element(raw_elem)
        elif raw_elem in _RDF_TYPE_CONTRACTED:
            return _RDF_TYPE_URI
        elif raw_elem.startswith('"'):  # it's a literal, will be better parsed later
            return raw_elem
        elif ":" in raw_elem:
            if raw_elem.startswith("_:"):
                return raw_elem
            return unprefixize_uri_mandatory(target_uri=raw_elem,
                                             prefix_namespaces_dict=self._prefixes)
        elif raw_elem in _BOOLEANS or self._is_num_literal(raw_elem):
            return raw_elem
            # else?? shouldnt happen, let it break with a nullpoitner

    def _parse_cornered_element(self, cornered_element):
        if self._base is None:
            return cornered_element  # There is no base
        elif cornered_element[1] in _INI_BASE_URIS:
            return "<" + self._base + cornered_element[2:-1] + ">"
        elif not cornered_element[1:].startswith("http"):
            return "<" + self._base + cornered_element[1:-1] + ">"
        else:
            return cornered_element  # Nothing to do with base

    @property
    def yielded_triples(self):
        return self._triples_count

    @property
    def error_triples(self):
        return self._error_triples

    @property
    def ignored_triples(self):
        return self._ignored_triples

    def _reset_parsing(self):
        self._error_triples = 0
        self._triples_count = 0
        self._ignored_triples = 0
        self._state = _WAITING_FOR_SUBJ


