
from shexer.io.graph.yielder.big_ttl_triples_yielder import BigTtlTriplesYielder
from shexer.io.graph.yielder.multifile_base_triples_yielder import MultifileBaseTripleYielder


class MultiBigTtlTriplesYielder(MultifileBaseTripleYielder):

    def __init__(self, list_of_files, allow_untyped_numbers=False, compression_mode=None, zip_base_archive=None):
        super(MultiBigTtlTriplesYielder, self).__init__(list_of_files=list_of_files,
                                                        allow_untyped_numbers=allow_untyped_numbers,
                                                        zip_base_archive=zip_base_archive,
                                                        compression_mode=compression_mode)

    def _constructor_file_yielder(self, a_source_file, parse_namespaces=False):
        return BigTtlTriplesYielder(source_file=a_source_file,
                                    allow_untyped_numbers=self._allow_untyped_numbers,
                                    compression_mode=self._compression_mode,
                                    zip_base_archive=self._zip_base_archive)



