from plantuml import PlantUML
from shexer.utils.shapes import prefixize_shape_name_if_possible
from shexer.utils.uri import prefixize_uri_if_possible
from shexer.model.fixed_prop_choice_statement import FixedPropChoiceStatement
from shexer.consts import RDF_TYPE
from shexer.model.shape import STARTING_CHAR_FOR_SHAPE_NAME
import warnings


class UMLSerializer(object):

    def __init__(self, shapes_list, url_server, image_path, namespaces_dict=None, instantiation_property=RDF_TYPE):
        self._disable_connection_warnings()
        self._shapes_list = shapes_list
        self._url_server = url_server
        self._image_path = image_path
        self._instantiation_property = instantiation_property
        self._namespaces_dict = namespaces_dict if namespaces_dict is not None else {}

        self._shape_alias = {}

        self._diagram = None

        self._server_connection = self._init_server_connection()

    def serialize_shapes(self):

        self._reset_diagram()

        self._init_diagram()
        self._fill_diagram_with_shapes()
        self._close_diagram()
        result = self._send_diagram_to_server()
        self._store_diagram(result)

    def _disable_connection_warnings(self):
        warnings.filterwarnings("ignore", category=ResourceWarning)

    def _send_diagram_to_server(self):
        return self._server_connection.processes(self._diagram)


    def _store_diagram(self, img_diagram):
        with open(self._image_path, "wb") as out_stream:
            out_stream.write(img_diagram)


    def _fill_diagram_with_shapes(self):
        self._declare_shapes_and_atts()
        self._declare_relations()

    def _declare_relations(self):
        for a_shape in self._shapes_list:
            for a_statement in a_shape.yield_statements():
                if self._is_a_shape_link(a_statement):
                    origin_name = prefixize_shape_name_if_possible(a_shape_name=a_shape.name,
                                                                   namespaces_prefix_dict=self._namespaces_dict)
                    target_name = prefixize_shape_name_if_possible(a_shape_name=a_statement._st_type,
                                                                   namespaces_prefix_dict=self._namespaces_dict)
                    target_st = prefixize_uri_if_possible(target_uri=a_statement.st_property,
                                                          namespaces_prefix_dict=self._namespaces_dict,
                                                          corners=False)
                    self._write_line(
                        f"{self._shape_alias[origin_name]} --> {self._shape_alias[target_name]} : {target_st}")

    def _declare_shapes_and_atts(self):
        for a_shape in self._shapes_list:
            self._declare_and_open_shape(a_shape)
            self._declare_shape_atts(a_shape)
            self._close_shape()

    def _declare_shape_atts(self, a_shape):
        for a_statement in a_shape.yield_statements():
            if not self._is_a_shape_link(a_statement):
                prop = prefixize_uri_if_possible(target_uri=a_statement.st_property,
                                                 namespaces_prefix_dict=self._namespaces_dict,
                                                 corners=False)
                target_obj = self._serialize_obj_of_non_shape_link(a_statement)

                self._write_line(f"{prop} : {target_obj}"
                                 + f" {str(a_statement.cardinality) if a_statement.cardinality != 1 else ''}")


    def _serialize_obj_of_non_shape_link(self, a_statement):
        if not type(a_statement) == FixedPropChoiceStatement:
            result = prefixize_uri_if_possible(target_uri=a_statement.st_type,
                                         namespaces_prefix_dict=self._namespaces_dict,
                                         corners=False)
            if self._is_a_type_declaration(a_statement):
                result = "[" + result + "]"
            return result
        types = []
        for a_type in a_statement.st_types:
            if a_type.startswith(STARTING_CHAR_FOR_SHAPE_NAME):
                types.append("@" + prefixize_uri_if_possible(target_uri=a_type[1:],
                                                             namespaces_prefix_dict=self._namespaces_dict,
                                                             corners=True))
            else:
                types.append(a_type)  # It should be IRI
        return " OR ".join(types)

    def _is_a_type_declaration(self, a_statement):
        return a_statement.st_property == self._instantiation_property

    def _is_a_shape_link(self, statement):
        if type(statement) == FixedPropChoiceStatement:
            return False
        return statement.st_type.startswith(STARTING_CHAR_FOR_SHAPE_NAME)

    def _declare_and_open_shape(self, a_shape):
        target_name = prefixize_shape_name_if_possible(a_shape_name=a_shape.name,
                                                       namespaces_prefix_dict=self._namespaces_dict)
        if ":" in target_name or "-" in target_name or target_name.startswith("<") :
            self._declare_shape_with_alias(target_name)
        else:
            self._declare_shape_without_alias(target_name)

    def _declare_shape_without_alias(self, target_name):
        self._shape_alias[target_name] = target_name
        self._write_line(f"object {target_name} {{")

    def _declare_shape_with_alias(self, target_name):
        alias = target_name
        alias = alias.replace(":", "_")
        alias = alias.replace("-", "_")

        if alias.startswith("<"):
            alias = target_name[1:-1]
        self._shape_alias[target_name] = alias
        self._write_line(f'object "{target_name}" as {alias} {{')

    def _close_shape(self):
        self._write_line("}", spacing=True)

    def _reset_diagram(self):
        self._diagram = ""

    def _init_diagram(self):
        self._write_line("@startuml", spacing=True)

    def _close_diagram(self):
        self._write_line("@enduml")

    def _write_line(self, text, spacing=False):
        self._diagram += text + "\n" * (1 if not spacing else 2)

    def _init_server_connection(self):
        return PlantUML(url=self._url_server)


