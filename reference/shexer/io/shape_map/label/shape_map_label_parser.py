from shexer.model.shape import STARTING_CHAR_FOR_SHAPE_NAME
from shexer.io.shex.formater.consts import SHAPE_LINK_CHAR

class ShapeMapLabelParser(object):

    def __init__(self, prefix_namespaces_dict=None):
        self._namespaces_prefix_dict = prefix_namespaces_dict if prefix_namespaces_dict is not None else {}

    def parse_shape_map_label(self, raw_label):

        if self._is_a_prefixed_uri(raw_label):
            return STARTING_CHAR_FOR_SHAPE_NAME + self._parse_prefixed_label(raw_label)
        return raw_label  # todo SURE?
        # return self._parse_unprefixed_label(raw_label)


    def _is_a_prefixed_uri(self, raw_label):
        if len(raw_label) < 2:
            return False
        if raw_label.startswith("<") and raw_label.endswith(">"):
            return False
        return True


    # def _parse_unprefixed_label(self, raw_label):
    #     return raw_label[1:-1]

    def _parse_prefixed_label(self, raw_label):
        index_sep = raw_label.find(":")
        if index_sep == -1:
            raise ValueError("Wrong label: expecting a URI surrounded by <> or a prefixed element: " + raw_label)
        target_prefix = raw_label[:index_sep]
        if target_prefix in self._namespaces_prefix_dict:
            return self._namespaces_prefix_dict[target_prefix] + raw_label[index_sep + 1:]
        else:
            raise ValueError("Unknown prefix in label: " + raw_label)




