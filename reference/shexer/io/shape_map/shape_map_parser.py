from shexer.utils.file import load_whole_file_content
from shexer.model.shape_map import ShapeMap, ShapeMapItem
from shexer.io.shape_map.node_selector.node_selector_parser import NodeSelectorParser
from shexer.io.shape_map.label.shape_map_label_parser import ShapeMapLabelParser
from shexer.utils.dict import reverse_keys_and_values

class ShapeMapParser(object):

    def __init__(self, namespaces_prefix_dict, sgraph):
        reversed_dict = reverse_keys_and_values(namespaces_prefix_dict)
        self._node_selector_parser = NodeSelectorParser(prefix_namespaces_dict=reversed_dict,
                                                        sgraph=sgraph)
        self._label_parser = ShapeMapLabelParser(prefix_namespaces_dict=reversed_dict)
        self._sgraph = sgraph

    def parse_shape_map(self, source_file=None, raw_content=None):
        self._check_input(source_file, raw_content)
        target_content = raw_content
        if source_file is not None:
            target_content = load_whole_file_content(source_file)
        return self._parse_shape_map_from_str(target_content)

    @staticmethod
    def _check_input(source_file, raw_content):
        if (source_file is None) == (raw_content is None):
            raise ValueError("Yoy must provide exactly one kind of input")

    def _parse_shape_map_from_str(self, raw_content):
        raise NotImplementedError("Implement this in derived classes")


####################################################

from shexer.io.json.json_loader import load_string_json

_KEY_NODE_SELECTOR = "nodeSelector"
_KEY_LABEL = "shapeLabel"


class JsonShapeMapParser(ShapeMapParser):
    """
    WARNING!! This is a toy parser. We are assuming many wel--formed stuff
    for the structure of the json itself and for the shape labels.
    Node selectors are well checked

    Example of expected format:
    [
  { "nodeSelector": "<http://data.example/node1>",
    "shapeLabel": "<http://schema.example/Shape2>"
    },
  { "nodeSelector": "<http://data.example/node1>",
    "shapeLabel": "<http://schema.example/Shape2>"
    }
]
    """

    def __init__(self, namespaces_prefix_dict, sgraph):
        super().__init__(namespaces_prefix_dict=namespaces_prefix_dict,
                         sgraph=sgraph)

    def _parse_shape_map_from_str(self, raw_content):
        result = ShapeMap()
        json_obj = load_string_json(raw_content)
        for a_list_elem in json_obj:
            result.add_item(ShapeMapItem(
                node_selector=self._node_selector_parser.parse_node_selector(a_list_elem[_KEY_NODE_SELECTOR]),
                shape_label=self._label_parser.parse_shape_map_label(a_list_elem[_KEY_LABEL])
            )
            )
        return result


####################################################


from shexer.io.line_reader.raw_string_line_reader import RawStringLineReader


class FixedShapeMapParser(ShapeMapParser):
    """
    WARNING!!!     This is a toy parser.

    Currently, this parser of Fixed ShapeMap syntax requires each couple selector@label to be in separate lines.
    Also, It will just assume trailing commas at the end of the line. If they are there, thats OK. If not, it will
    assume that its just because it is the last element.
    """

    def __init__(self, namespaces_prefix_dict, sgraph):
        super().__init__(namespaces_prefix_dict=namespaces_prefix_dict,
                         sgraph=sgraph)

    def _parse_shape_map_from_str(self, raw_content):
        result = ShapeMap()
        for a_line in RawStringLineReader(raw_string=raw_content).read_lines():
            a_line = a_line.strip()
            if not self._is_an_empty_line(a_line):
                result.add_item(self._parse_shape_map_item_from_line(a_line))

        return result

    def _is_an_empty_line(self, line):
        """
        It is expecting to receive a line which has already been stripped ()
        :param line:
        :return:
        """
        if len(line) == 0:
            return True
        if line[0] == "#":  # It is a comment
            return True
        return False

    def _parse_shape_map_item_from_line(self, line):
        """
        It is expecting to receive a line which has already been stripped ()
        :param line:
        :return:
        """
        line = self._remove_trailing_comma(line)
        pieces = line.split("@")
        if len(pieces) != 2:
            raise ValueError("There must be exactly a '@' char for each couple selector-label")
        return ShapeMapItem(shape_label=self._label_parser.parse_shape_map_label(pieces[1].strip()),
                            node_selector=self._node_selector_parser.parse_node_selector(pieces[0].strip()))

    @staticmethod
    def _remove_trailing_comma(line):
        if line[-1] == ",":
            return line[:-1]
        return line
