
from shexer.utils.uri import remove_corners, add_corners, RDF_TYPE
from shexer.model.node_selector import NodeSelectorNoSparql, NodeSelectorSparql
from rdflib.plugins import sparql
import re

_QUOTES = ["'", '"']
_WHITES_REGEX = re.compile(" +")

_FOCUS_LOWER = "focus"
_WILDCARD = "_"

_FOCUS_VARIABLE = "?f"
_WILDCARD_VARIABLE = "?x"


class NodeSelectorParser(object):

    def __init__(self, prefix_namespaces_dict, sgraph):
        self._prefix_namespace_dict = prefix_namespaces_dict
        self._sgraph = sgraph
        # self._endpoint_url = endpoint_url

    def parse_node_selector(self, raw_selector):
        raw_selector = raw_selector.strip()
        if raw_selector.startswith("<"):
            return self._parse_unprefixed_node_selector(raw_selector)
        elif raw_selector.startswith("{"):
            return self._parse_focus_expression(raw_selector)
        elif raw_selector.startswith("SPARQL"):
            return self._parse_sparql_expression(raw_selector)
        else:
            return self._parse_prefixed_node_selector(raw_selector)

    def _parse_unprefixed_node_selector(self, raw_selector):
        return NodeSelectorNoSparql(raw_selector=raw_selector,
                                    target_node=remove_corners(raw_selector),
                                    sgraph=self._sgraph)

    def _parse_prefixed_node_selector(self, raw_selector):
        for a_prefix in self._prefix_namespace_dict:
            if raw_selector.startswith(a_prefix + ":"):
                return NodeSelectorNoSparql(raw_selector=raw_selector,
                                            target_node=self._unprefix_uri(prefix=a_prefix,
                                                                           uri=raw_selector),
                                            sgraph=self._sgraph)

    def _parse_focus_expression(self, raw_selector):
        if raw_selector[0] != "{" or raw_selector[-1] != "}":
            raise ValueError("The following node selector is not surrounded by {}: " * raw_selector)
        raw_string = raw_selector[1:-1].strip()
        raw_string = _WHITES_REGEX.sub(" ", raw_string)
        pieces = raw_string.split(" ")
        if len(pieces) != 3:
            self._focus_node_error(raw_selector)
        subject_for_query, focus_count = self._parse_subj_obj_focus_expression(pieces[0], 0)
        predicate_for_query = self._parse_uri_focus_expression(pieces[1])
        object_for_query, focus_count = self._parse_subj_obj_focus_expression(pieces[2], focus_count)

        if focus_count != 1:
            raise ValueError("The node selector must have exactly one FOCUS")

        query = self._turn_focus_exp_tokens_into_query(subject_for_query, predicate_for_query, object_for_query)
        return NodeSelectorSparql(raw_selector=raw_selector,
                                  sparql_query_selector=query,
                                  id_variable_query=self._parse_variable_in_single_variable_query(query),
                                  sgraph=self._sgraph)

    def _turn_focus_exp_tokens_into_query(self, subj, pred, obj):
        return self._namespaces_to_string() + "SELECT " + _FOCUS_VARIABLE + " WHERE {" + subj + " " + pred + " " + obj + " . } "
        # return sparql.prepareQuery(string_query, initNs=self._prefix_namespace_dict)

    def _parse_subj_obj_focus_expression(self, token, focus_count):
        if token.lower() == _FOCUS_LOWER:
            return _FOCUS_VARIABLE, focus_count + 1
        elif token == _WILDCARD:
            return _WILDCARD_VARIABLE, focus_count
        else:
            return self._parse_uri_focus_expression(token), focus_count

    def _parse_uri_focus_expression(self, token):
        if token == "a":
            return add_corners(RDF_TYPE)
        elif token.endswith(">"):
            if token.startswith("<"):
                return token
        else:
            for a_prefix in self._prefix_namespace_dict:
                if token.startswith(a_prefix + ":"):
                    return add_corners(self._unprefix_uri(prefix=a_prefix,
                                              uri=token))
        raise ValueError("URI not well formed or with an unknown prefix: " + token)

    def _unprefix_uri(self, prefix, uri):
        return uri.replace(prefix + ":", self._prefix_namespace_dict[prefix])

    def _parse_sparql_expression(self, raw_selector):
        raw_string = raw_selector.replace("SPARQL", "")
        raw_string = raw_string.strip()
        if raw_string[0] in _QUOTES and raw_string[-1] in _QUOTES:
            try:
                return self._parse_single_variable_select_query(raw_string[1:-1])
            except BaseException as e:
                raise ValueError("The SPARQL query of the next node selector is not well formed: " \
                        + raw_selector + ". Cause: " + str(e))
        raise ValueError("The SPARQL query of the next node selector is not surrounded by quotes: " + raw_selector)

    def _parse_single_variable_select_query(self, string_query):
        # Is the query well-formed? If not, the next sentence raises error
        sparql.prepareQuery(string_query, initNs=self._prefix_namespace_dict)
        # Is it a select query?
        if "select" not in string_query[:string_query.find("{")].lower():
            raise ValueError("The SPARQL query is not a SELECT query")
        # Does it have a single variable
        if string_query[:string_query.find("{")].count("?") != 1:
            raise ValueError("The SPARQL query must have a single variable")

        variable_id = self._parse_variable_in_single_variable_query(string_query)

        return NodeSelectorSparql(raw_selector=string_query,
                                  sparql_query_selector=self._namespaces_to_string() + string_query,
                                  id_variable_query=variable_id,
                                  sgraph=self._sgraph)

    def _parse_variable_in_single_variable_query(self, string_query):
        index_first_char_var_name = string_query.find('?') + 1
        index_last_char_var_name = string_query[index_first_char_var_name:].find(" ") + index_first_char_var_name
        return string_query[index_first_char_var_name:index_last_char_var_name]

    def _namespaces_to_string(self):
        namespaces = ""
        for prefix, uri in self._prefix_namespace_dict.items():
            namespaces += "PREFIX " + prefix + ": <" + uri + ">\n"
        return namespaces

    @staticmethod
    def _focus_node_error(raw_selector):
        raise ValueError("This focus node expression cant be parsed: " + raw_selector)
