import json


def load_string_json(raw_string):
    return json.loads(raw_string)


def load_json_file(source_file):
    with open(source_file, "r") as in_stream:
        return json.load(in_stream)