from wlighter import WLighter


def wikidata_annotation(raw_input, string_return, out_file, format, rdfs_comments):
    wlig = WLighter(raw_input=raw_input,
                    format=format,
                    languages=["en"],
                    generate_rdfs_comments=rdfs_comments,
                    mode_column_aligned=True)
    result = wlig.annotate_all(out_file=out_file, string_return=string_return)
    if string_return:
        return result
