

class FileLineReader(object):

    def __init__(self, source_file):
        self._source_file = source_file

    def read_lines(self):
        with open(self._source_file, "r", errors='ignore') as in_stream:
            for a_line in in_stream:
                yield a_line