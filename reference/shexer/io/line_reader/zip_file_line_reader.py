class ZipFileLineReader(object):
    def __init__(self, zip_archive, zip_target):
        self._zip_archive = zip_archive
        self._zip_target = zip_target

    def read_lines(self):
        with self._zip_archive.open(self._zip_target, "r") as in_stream:
            for a_line in in_stream:
                yield a_line.decode("utf-8")

