from xz import open as xzopen


class XzFileLineReader(object):

    def __init__(self, xz_file):
        self._xz_file = xz_file

    def read_lines(self):
        with xzopen(self._xz_file, "r") as in_stream:
            for a_line in in_stream:
                yield a_line.decode("utf-8")