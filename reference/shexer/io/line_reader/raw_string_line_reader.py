
class RawStringLineReader():

    def __init__(self, raw_string):
        self._raw_string = raw_string


    def read_lines(self):
        for a_line in self._raw_string.split("\n"):
            if a_line.strip() != "":
                yield a_line