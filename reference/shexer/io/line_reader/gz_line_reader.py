import gzip

class GzFileLineReader(object):

    def __init__(self, gz_file):
        self._gz_file = gz_file

    def read_lines(self):
        with gzip.open(self._gz_file, "r") as in_stream:
            for a_line in in_stream:
                yield a_line.decode("utf-8")
