def reverse_keys_and_values(target_dict):
    return {y: x for x, y in target_dict.items()}
