from shexer.consts import NT, FIXED_SHAPE_MAP, SHAPES_DEFAULT_NAMESPACE
from shexer.utils.factories.triple_yielders_factory import get_triple_yielder, tune_target_classes_if_needed, \
    read_target_classes_from_file
from shexer.core.instances.instance_tracker import InstanceTracker
from shexer.core.instances.mappings.shape_map_instance_tracker import ShapeMapInstanceTracker
from shexer.core.instances.mix.mixed_instance_tracker import MixedInstanceTracker
from shexer.utils.factories.iri_factory import create_IRIs_from_string_list
from shexer.utils.factories.shape_map_parser_factory import get_shape_map_parser
from shexer.model.graph.endpoint_sgraph import EndpointSGraph
from shexer.model.graph.rdflib_sgraph import RdflibSgraph
from shexer.utils.dict import reverse_keys_and_values


def get_instance_tracker(instances_file_input=None, graph_file_input=None,
                         graph_list_of_files_input=None, target_classes=None,
                         file_target_classes=None, input_format=NT,
                         instantiation_property=None,
                         infer_numeric_types_for_untyped_literals=None,
                         namespaces_to_ignore=None,
                         raw_graph=None,
                         all_classes_mode=False,
                         namespaces_dict=None,
                         url_input=None,
                         list_of_url_input=None,
                         rdflib_graph=None,
                         shape_map_file=None,
                         shape_map_raw=None,
                         shape_map_format=FIXED_SHAPE_MAP,
                         track_classes_for_entities_at_last_depth_level=True,
                         depth_for_building_subgraph=1,
                         url_endpoint=None,
                         strict_syntax_with_corners=False,
                         namespaces_for_qualifier_props=None,
                         shape_qualifiers_mode=False,
                         built_remote_graph=None,
                         built_shape_map=None,
                         shapes_namespace=SHAPES_DEFAULT_NAMESPACE,
                         limit_remote_instances=-1,
                         inverse_paths=False,
                         compression_mode=None,
                         disable_endpoint_cache=False,
                         instances_cap=-1
                         ):
    """

    :param instances_file_input:
    :param graph_file_input:
    :param graph_list_of_files_input:
    :param target_classes:
    :param file_target_classes:
    :param input_format:
    :param instantiation_property:
    :param namespaces_to_ignore:
    :param raw_graph:
    :param all_classes_mode:
    :param namespaces_dict:
    :param url_input:
    :param list_of_url_input:
    :param shape_map_file:
    :param shape_map_raw:
    :param shape_map_format:
    :param track_classes_for_entities_at_last_depth_level:
    :param depth_for_building_subgraph:
    :param url_endpoint:
    :param strict_syntax_with_corners:
    :param namespaces_for_qualifier_props:
    :param shape_qualifiers_mode:
    :param built_remote_graph:
    :param built_shape_map:
    :return:
    """

    prefix_namespaces_dict = reverse_keys_and_values(namespaces_dict)
    instance_yielder = None  # Old-schooler
    if instances_file_input is not None:
        instance_yielder = get_triple_yielder(source_file=instances_file_input,
                                              input_format=input_format,
                                              namespaces_to_ignore=namespaces_to_ignore,
                                              raw_graph=raw_graph,
                                              namespaces_dict=namespaces_dict,
                                              allow_untyped_numbers=infer_numeric_types_for_untyped_literals,
                                              url_input=url_input,
                                              list_of_url_input=list_of_url_input,
                                              rdflib_graph=rdflib_graph,
                                              instantiation_property=instantiation_property,
                                              shape_map_file=shape_map_file,
                                              shape_map_raw=shape_map_raw,
                                              track_classes_for_entities_at_last_depth_level=
                                              track_classes_for_entities_at_last_depth_level,
                                              depth_for_building_subgraph=depth_for_building_subgraph,
                                              url_endpoint=url_endpoint,
                                              strict_syntax_with_corners=strict_syntax_with_corners,
                                              target_classes=target_classes,
                                              file_target_classes=file_target_classes,
                                              built_remote_graph=built_remote_graph,
                                              built_shape_map=built_shape_map,
                                              limit_remote_instances=limit_remote_instances,
                                              inverse_paths=inverse_paths,
                                              all_classes_mode=all_classes_mode,
                                              compression_mode=compression_mode,
                                              disable_endpoint_cache=disable_endpoint_cache
                                              )
    else:
        instance_yielder = get_triple_yielder(source_file=graph_file_input,
                                              list_of_source_files=graph_list_of_files_input,
                                              input_format=input_format,
                                              namespaces_to_ignore=namespaces_to_ignore,
                                              raw_graph=raw_graph,
                                              namespaces_dict=namespaces_dict,
                                              allow_untyped_numbers=infer_numeric_types_for_untyped_literals,
                                              url_input=url_input,
                                              list_of_url_input=list_of_url_input,
                                              rdflib_graph=rdflib_graph,
                                              instantiation_property=instantiation_property,
                                              shape_map_file=shape_map_file,
                                              shape_map_raw=shape_map_raw,
                                              track_classes_for_entities_at_last_depth_level=track_classes_for_entities_at_last_depth_level,
                                              depth_for_building_subgraph=depth_for_building_subgraph,
                                              url_endpoint=url_endpoint,
                                              strict_syntax_with_corners=strict_syntax_with_corners,
                                              target_classes=target_classes,
                                              file_target_classes=file_target_classes,
                                              built_remote_graph=built_remote_graph,
                                              built_shape_map=built_shape_map,
                                              limit_remote_instances=limit_remote_instances,
                                              inverse_paths=inverse_paths,
                                              all_classes_mode=all_classes_mode,
                                              compression_mode=compression_mode,
                                              disable_endpoint_cache=disable_endpoint_cache
                                              )

    selectors_tracker = None
    pure_instances_tracker = None

    if _are_there_selectors(shape_map_file, shape_map_raw):
        sgraph = _get_adequate_sgraph(endpoint_url=url_endpoint,
                                      raw_graph=raw_graph,
                                      graph_file_input=graph_file_input,
                                      url_input=url_input,
                                      graph_format=input_format,
                                      built_remote_graph=built_remote_graph,
                                      disable_endpoint_cache=disable_endpoint_cache)
        valid_shape_map = built_shape_map
        if built_shape_map is None:
            shape_map_parser = get_shape_map_parser(format=shape_map_format,
                                                    sgraph=sgraph,
                                                    namespaces_prefix_dict=namespaces_dict)
            valid_shape_map = shape_map_parser.parse_shape_map(source_file=shape_map_file,
                                                               raw_content=shape_map_raw)
        selectors_tracker = ShapeMapInstanceTracker(shape_map=valid_shape_map)
    if _are_there_some_target_classes(target_classes, file_target_classes, all_classes_mode, shape_qualifiers_mode):
        model_classes = None
        if file_target_classes or target_classes is not None:
            list_of_str_target_classes = tune_target_classes_if_needed(
                list_target_classes=target_classes,
                prefix_namespaces_dict=prefix_namespaces_dict) if target_classes is not None else read_target_classes_from_file(
                file_target_classes=file_target_classes,
                prefix_namespaces_dict=prefix_namespaces_dict)
            model_classes = get_list_of_model_classes(list_of_str_target_classes)

        pure_instances_tracker = InstanceTracker(target_classes=model_classes,
                                                 triples_yielder=instance_yielder,
                                                 instantiation_property=instantiation_property,
                                                 all_classes_mode=all_classes_mode,
                                                 track_hierarchies=False,
                                                 namespaces_for_qualifier_props=namespaces_for_qualifier_props,
                                                 shape_qualifiers_mode=shape_qualifiers_mode,
                                                 shapes_namespace=shapes_namespace,
                                                 instances_cap=instances_cap)

    return _decide_tracker_to_return(selectors_tracker, pure_instances_tracker)


def _get_adequate_sgraph(endpoint_url, graph_file_input, url_input, graph_format,
                         raw_graph, built_remote_graph, disable_endpoint_cache):
    if endpoint_url is not None:
        return built_remote_graph if built_remote_graph is not None else EndpointSGraph(endpoint_url=endpoint_url,
                                                                                        store_locally=not disable_endpoint_cache)
    else:
        return RdflibSgraph(source_file=graph_file_input if graph_file_input is not None else url_input,
                            raw_graph=raw_graph,
                            format=graph_format)


def _decide_tracker_to_return(selectors_tracker, pure_instances_tracker):
    if selectors_tracker is not None and pure_instances_tracker is not None:
        return MixedInstanceTracker(list_of_instance_trackers=[selectors_tracker, pure_instances_tracker])
    return selectors_tracker if selectors_tracker is not None else pure_instances_tracker


def _are_there_selectors(shape_map_file, shape_map_raw):
    if shape_map_file is None and shape_map_raw is None:
        return False
    return True


def _are_there_some_target_classes(target_classes, file_target_classes, all_classes_mode, shape_qualifiers_mode):
    if target_classes is None and file_target_classes is None and not all_classes_mode and not shape_qualifiers_mode:
        return False
    return True


def get_list_of_model_classes(list_of_str_target_classes):
    return create_IRIs_from_string_list(list_of_str_target_classes)
