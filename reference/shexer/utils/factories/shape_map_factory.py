from shexer.utils.factories.triple_yielders_factory import produce_shape_map_according_to_input
from shexer.model.graph.rdflib_sgraph import RdflibSgraph


def get_shape_map_if_needed(sm_format, remote_sgraph, namespaces_prefix_dict, target_classes,
                            file_target_classes, shape_map_file, shape_map_raw,
                            instantiation_property, shape_map_already_built=None,
                            rdflib_graph=None, raw_graph=None, source_file_graph=None, input_format=None,
                            limit_remote_instances=-1):
    if shape_map_file is None and shape_map_raw is None:
        return None
    if shape_map_already_built:
        return shape_map_already_built

    sgraph = remote_sgraph if remote_sgraph is not None else RdflibSgraph(rdflib_graph=rdflib_graph,
                                                                          raw_graph=raw_graph,
                                                                          source_file=source_file_graph,
                                                                          format=input_format)

    return produce_shape_map_according_to_input(sm_format=sm_format,
                                                sgraph=sgraph,
                                                namespaces_prefix_dict=namespaces_prefix_dict,
                                                target_classes=target_classes,
                                                file_target_classes=file_target_classes,
                                                shape_map_file=shape_map_file,
                                                shape_map_raw=shape_map_raw,
                                                instantiation_property=instantiation_property,
                                                shape_map_already_built=shape_map_already_built,
                                                limit_remote_instances=limit_remote_instances)