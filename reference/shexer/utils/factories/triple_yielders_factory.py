from shexer.io.graph.yielder.multi_nt_triples_yielder import MultiNtTriplesYielder
from shexer.io.graph.yielder.nt_triples_yielder import NtTriplesYielder
from shexer.io.graph.yielder.tsv_nt_triples_yielder import TsvNtTriplesYielder
from shexer.io.graph.yielder.multi_tsv_nt_triples_yielder import MultiTsvNtTriplesYielder
from shexer.io.graph.yielder.rdflib_triple_yielder import RdflibParserTripleYielder, RdflibTripleYielder
from shexer.io.graph.yielder.multi_rdflib_triple_yielder import MultiRdfLibTripleYielder
from shexer.io.graph.yielder.remote.sgraph_from_selectors_triple_yielder import SgraphFromSelectorsTripleYielder
from shexer.io.graph.yielder.filter.filter_namespaces_triple_yielder import FilterNamespacesTriplesYielder
from shexer.io.graph.yielder.big_ttl_triples_yielder import BigTtlTriplesYielder
from shexer.io.graph.yielder.multi_big_ttl_files_triple_yielder import MultiBigTtlTriplesYielder
from shexer.io.graph.yielder.multi_zip_triples_yielder import MultiZipTriplesYielder
from shexer.utils.factories.shape_map_parser_factory import get_shape_map_parser
from shexer.model.graph.endpoint_sgraph import EndpointSGraph
from shexer.utils.translators.list_of_classes_to_shape_map import ListOfClassesToShapeMap
from shexer.utils.target_elements import tune_target_classes_if_needed
from shexer.utils.dict import reverse_keys_and_values
from shexer.utils.compression import list_of_zip_internal_files
from zipfile import ZipFile

from shexer.consts import NT, TSV_SPO, N3, TURTLE, RDF_XML, FIXED_SHAPE_MAP, JSON_LD, TURTLE_ITER, ZIP


def produce_shape_map_according_to_input(sm_format, sgraph, namespaces_prefix_dict, target_classes,
                                         file_target_classes, shape_map_file, shape_map_raw,
                                         instantiation_property, shape_map_already_built=None,
                                         limit_remote_instances=-1, all_classes_mode=False):
    if shape_map_already_built is not None:
        return shape_map_already_built
    prefix_namespaces_dict = reverse_keys_and_values(namespaces_prefix_dict)
    if shape_map_raw is not None or shape_map_file is not None:
        shape_map_parser = get_shape_map_parser(format=sm_format,
                                                sgraph=sgraph,
                                                namespaces_prefix_dict=namespaces_prefix_dict)

        return shape_map_parser.parse_shape_map(source_file=shape_map_file,
                                                raw_content=shape_map_raw)
    else:
        translator = ListOfClassesToShapeMap(sgraph=sgraph,
                                             prefix_namespaces_dict=prefix_namespaces_dict)
        if all_classes_mode:
            return translator.str_class_list_to_shape_map_sparql_selectors(str_list=[a_class for
                                                                                     a_class in
                                                                                     sgraph.yield_classes_with_instances(
                                                                                         instantiation_property=instantiation_property)],
                                                                           instantiation_property=instantiation_property,
                                                                           limit_remote_instances=limit_remote_instances)
        else:
            target_classes = tune_target_classes_if_needed(list_target_classes=target_classes,
                                                           prefix_namespaces_dict=prefix_namespaces_dict) \
                if target_classes is not None \
                else read_target_classes_from_file(file_target_classes=file_target_classes,
                                                   prefix_namespaces_dict=prefix_namespaces_dict)

            return translator.str_class_list_to_shape_map_sparql_selectors(str_list=target_classes,
                                                                           instantiation_property=instantiation_property,
                                                                           limit_remote_instances=limit_remote_instances)


def get_triple_yielder(source_file=None, list_of_source_files=None, input_format=NT, namespaces_to_ignore=None,
                       allow_untyped_numbers=False, raw_graph=None, namespaces_dict=None, url_input=None,
                       list_of_url_input=None, rdflib_graph=None, shape_map_file=None, shape_map_raw=None,
                       shape_map_format=FIXED_SHAPE_MAP,
                       track_classes_for_entities_at_last_depth_level=True, depth_for_building_subgraph=1,
                       url_endpoint=None, instantiation_property=None, strict_syntax_with_corners=False,
                       target_classes=None, file_target_classes=None, built_remote_graph=None,
                       built_shape_map=None, limit_remote_instances=-1, inverse_paths=False, all_classes_mode=False,
                       compression_mode=None, disable_endpoint_cache=False):
    zip_base_archives = _get_base_zip_archive_if_needed(source_file, list_of_source_files, compression_mode)
    result = None
    if url_endpoint is not None:
        result = _yielder_for_url_endpoint(built_remote_graph=built_remote_graph,
                                           url_endpoint=url_endpoint,
                                           built_shape_map=built_shape_map,
                                           shape_map_format=shape_map_format,
                                           namespaces_dict=namespaces_dict,
                                           target_classes=target_classes,
                                           file_target_classes=file_target_classes,
                                           shape_map_file=shape_map_file,
                                           shape_map_raw=shape_map_raw,
                                           instantiation_property=instantiation_property,
                                           limit_remote_instances=limit_remote_instances,
                                           all_classes_mode=all_classes_mode,
                                           depth_for_building_subgraph=depth_for_building_subgraph,
                                           track_classes_for_entities_at_last_depth_level=track_classes_for_entities_at_last_depth_level,
                                           strict_syntax_with_corners=strict_syntax_with_corners,
                                           allow_untyped_numbers=allow_untyped_numbers,
                                           inverse_paths=inverse_paths,
                                           disable_endpoint_cache=disable_endpoint_cache)

    elif url_input is not None or list_of_url_input is not None:  # Always use rdflib to parse remote graphs
        result = _yielder_for_url_input(url_input=url_input,
                                        allow_untyped_numbers=allow_untyped_numbers,
                                        raw_graph=raw_graph,
                                        input_format=input_format,
                                        namespaces_dict=namespaces_dict,
                                        list_of_url_input=list_of_url_input)
    elif rdflib_graph is not None:
        result = RdflibTripleYielder(rdflib_graph=rdflib_graph,
                                     namespaces_dict=namespaces_dict)
    elif input_format == NT:
        result = _yielder_for_nt(source_file=source_file,
                                 raw_graph=raw_graph,
                                 allow_untyped_numbers=allow_untyped_numbers,
                                 list_of_source_files=list_of_source_files,
                                 compression_mode=compression_mode,
                                 zip_base_archives=zip_base_archives)
    elif input_format == TSV_SPO:
        result = _yielder_for_tsv_spo(source_file=source_file,
                                      allow_untyped_numbers=allow_untyped_numbers,
                                      raw_graph=raw_graph,
                                      list_of_files=list_of_source_files,
                                      compression_mode=compression_mode,
                                      zip_base_archives=zip_base_archives)
    elif input_format == TURTLE_ITER:
        result = _yielder_for_turtle_iter(source_file=source_file,
                                          allow_untyped_numbers=allow_untyped_numbers,
                                          raw_graph=raw_graph,
                                          list_of_files=list_of_source_files,
                                          compression_mode=compression_mode,
                                          zip_base_archives=zip_base_archives)
    elif input_format in [N3, RDF_XML, JSON_LD, TURTLE]:
        result = _yielder_for_rdflib_parser(source_file=source_file,
                                            allow_untyped_numbers=allow_untyped_numbers,
                                            raw_graph=raw_graph,
                                            input_format=input_format,
                                            namespaces_dict=namespaces_dict,
                                            list_of_source_files=list_of_source_files,
                                            compression_mode=compression_mode,
                                            zip_base_archives=zip_base_archives)
    else:
        raise ValueError("Not supported format: " + input_format)

    if namespaces_to_ignore is None:
        return result
    else:
        return FilterNamespacesTriplesYielder(actual_triple_yielder=result,
                                              namespaces_to_ignore=namespaces_to_ignore)


def _yielder_for_compressed_inputs(base_yielders):
    if len(base_yielders) == 1:
        result = base_yielders[0]
        return base_yielders[0]
    return MultiZipTriplesYielder(multiyielders=base_yielders)


def _yielder_for_rdflib_parser(source_file, allow_untyped_numbers, raw_graph,
                               input_format, namespaces_dict, list_of_source_files,
                               compression_mode, zip_base_archives):
    if zip_base_archives is not None:
        return _yielder_for_compressed_inputs(
            base_yielders=[MultiRdfLibTripleYielder(list_of_files=list_of_zip_internal_files(a_zip_file),
                                                    allow_untyped_numbers=allow_untyped_numbers,
                                                    input_format=input_format,
                                                    namespaces_dict=namespaces_dict,
                                                    compression_mode=compression_mode,
                                                    zip_archive_file=a_zip_file) for a_zip_file in
                           zip_base_archives])

    elif source_file is not None or raw_graph is not None:
        return RdflibParserTripleYielder(source=source_file,
                                         allow_untyped_numbers=allow_untyped_numbers,
                                         raw_graph=raw_graph,
                                         input_format=input_format,
                                         namespaces_dict=namespaces_dict,
                                         compression_mode=compression_mode)

    else:
        return MultiRdfLibTripleYielder(list_of_files=list_of_source_files,
                                        allow_untyped_numbers=allow_untyped_numbers,
                                        input_format=input_format,
                                        namespaces_dict=namespaces_dict,
                                        compression_mode=compression_mode)


def _yielder_for_turtle_iter(source_file, raw_graph, allow_untyped_numbers, list_of_files,
                             compression_mode, zip_base_archives):
    if zip_base_archives is not None:
        # return MultiBigTtlTriplesYielder(list_of_files=list_of_zip_internal_files(zip_base_archive),
        #                                  compression_mode=compression_mode,
        #                                  allow_untyped_numbers=allow_untyped_numbers,
        #                                  zip_base_archives=zip_base_archives)
        return _yielder_for_compressed_inputs(
            [MultiBigTtlTriplesYielder(list_of_files=list_of_zip_internal_files(a_zip_file),
                                       compression_mode=compression_mode,
                                       allow_untyped_numbers=allow_untyped_numbers,
                                       zip_base_archive=a_zip_file) for a_zip_file in zip_base_archives])
    elif source_file is not None or raw_graph is not None:
        return BigTtlTriplesYielder(source_file=source_file,
                                    allow_untyped_numbers=allow_untyped_numbers,
                                    raw_graph=raw_graph,
                                    compression_mode=compression_mode)
    else:
        return MultiBigTtlTriplesYielder(list_of_files=list_of_files,
                                         allow_untyped_numbers=allow_untyped_numbers,
                                         compression_mode=compression_mode)


def _yielder_for_tsv_spo(source_file, raw_graph, allow_untyped_numbers, list_of_files,
                         compression_mode, zip_base_archives):
    if zip_base_archives is not None:
        # return MultiTsvNtTriplesYielder(list_of_files=list_of_zip_internal_files(zip_base_archive),
        #                                 compression_mode=compression_mode,
        #                                 allow_untyped_numbers=allow_untyped_numbers,
        #                                 zip_base_archives=zip_base_archives)
        return _yielder_for_compressed_inputs(
            [MultiTsvNtTriplesYielder(list_of_files=list_of_zip_internal_files(a_zip_file),
                                      compression_mode=compression_mode,
                                      allow_untyped_numbers=allow_untyped_numbers,
                                      zip_base_archive=a_zip_file) for a_zip_file in zip_base_archives])
    elif source_file is not None or raw_graph is not None:
        return TsvNtTriplesYielder(source_file=source_file,
                                   allow_untyped_numbers=allow_untyped_numbers,
                                   raw_graph=raw_graph,
                                   compression_mode=compression_mode)
    else:
        return MultiTsvNtTriplesYielder(list_of_files=list_of_files,
                                        allow_untyped_numbers=allow_untyped_numbers,
                                        compression_mode=compression_mode)


def read_target_classes_from_file(file_target_classes, prefix_namespaces_dict):
    result = []
    with open(file_target_classes, "r") as in_stream:
        for a_line in in_stream:
            candidate = a_line.strip()
            if candidate != "":
                result.append(candidate)
    return tune_target_classes_if_needed(list_target_classes=result,
                                         prefix_namespaces_dict=prefix_namespaces_dict)


def _yielder_for_url_endpoint(built_remote_graph, url_endpoint, built_shape_map, shape_map_format,
                              namespaces_dict, target_classes, file_target_classes, shape_map_file,
                              shape_map_raw, instantiation_property, limit_remote_instances, all_classes_mode,
                              depth_for_building_subgraph, track_classes_for_entities_at_last_depth_level,
                              strict_syntax_with_corners, allow_untyped_numbers, inverse_paths, disable_endpoint_cache):
    sgrpah = built_remote_graph if built_remote_graph is not None else EndpointSGraph(endpoint_url=url_endpoint,
                                                                                      store_locally=not disable_endpoint_cache)

    shape_map = built_shape_map
    if built_shape_map is None:
        shape_map = produce_shape_map_according_to_input(sm_format=shape_map_format,
                                                         sgraph=sgrpah,
                                                         namespaces_prefix_dict=namespaces_dict,
                                                         target_classes=target_classes,
                                                         file_target_classes=file_target_classes,
                                                         shape_map_file=shape_map_file,
                                                         shape_map_raw=shape_map_raw,
                                                         instantiation_property=instantiation_property,
                                                         limit_remote_instances=limit_remote_instances,
                                                         all_classes_mode=all_classes_mode)
    return SgraphFromSelectorsTripleYielder(shape_map=shape_map,
                                            depth=depth_for_building_subgraph,
                                            classes_at_last_level=track_classes_for_entities_at_last_depth_level,
                                            instantiation_property=instantiation_property,
                                            strict_syntax_with_corners=strict_syntax_with_corners,
                                            allow_untyped_numbers=allow_untyped_numbers,
                                            inverse_paths=inverse_paths)


def _yielder_for_url_input(url_input, allow_untyped_numbers, raw_graph,
                           input_format, namespaces_dict, list_of_url_input):
    if url_input:
        return RdflibParserTripleYielder(source=url_input,
                                         allow_untyped_numbers=allow_untyped_numbers,
                                         raw_graph=raw_graph,
                                         input_format=input_format,
                                         namespaces_dict=namespaces_dict)
    else:  # elif list_of_url_input:
        return MultiRdfLibTripleYielder(list_of_files=list_of_url_input,
                                        allow_untyped_numbers=allow_untyped_numbers,
                                        input_format=input_format,
                                        namespaces_dict=namespaces_dict)


def _yielder_for_nt(source_file, raw_graph, allow_untyped_numbers,
                    list_of_source_files, compression_mode,
                    zip_base_archives):
    if (source_file is not None or raw_graph is not None) and zip_base_archives is None:
        return NtTriplesYielder(source_file=source_file,
                                allow_untyped_numbers=allow_untyped_numbers,
                                raw_graph=raw_graph,
                                compression_mode=compression_mode)
    elif zip_base_archives is not None:
        # return MultiNtTriplesYielder(list_of_files=list_of_zip_internal_files(zip_base_archive),
        #                              allow_untyped_numbers=allow_untyped_numbers,
        #                              compression_mode=compression_mode,
        #                              zip_base_archives=zip_base_archives)
        return _yielder_for_compressed_inputs(
            [MultiNtTriplesYielder(list_of_files=list_of_zip_internal_files(a_zip_file),
                                   allow_untyped_numbers=allow_untyped_numbers,
                                   compression_mode=compression_mode,
                                   zip_base_archive=a_zip_file) for a_zip_file in zip_base_archives])

    else:
        return MultiNtTriplesYielder(list_of_files=list_of_source_files,
                                     allow_untyped_numbers=allow_untyped_numbers,
                                     compression_mode=compression_mode)


def _get_base_zip_archive_if_needed(source_file, list_of_source_files, compression_mode):
    if compression_mode != ZIP:
        return None
    if source_file is not None:
        return [ZipFile(source_file, 'r')]
    result = []
    for a_source_file in list_of_source_files:
        result.append(ZipFile(a_source_file, 'r'))
    return result
