
from shexer.model.hierarchy_tree import HTree, HNode, HMacro
from shexer.model.Macro import Macro
from shexer.model.const_elem_types import DOT_ELEM_TYPE, IRI_ELEM_TYPE, LITERAL_ELEM_TYPE


def get_basic_h_tree():
    result = HTree()
    dot_node = HNode(hcontent=HMacro(value=Macro(macro_const=DOT_ELEM_TYPE)),
                     htree=result)
    result.root = dot_node
    literal_node = HNode(hcontent=HMacro(value=Macro(macro_const=LITERAL_ELEM_TYPE)),
                         htree=result)
    iri_node = HNode(hcontent=HMacro(value=Macro(macro_const=IRI_ELEM_TYPE)),
                     htree=result)

    dot_node.add_child(literal_node)
    dot_node.add_child(iri_node)
    return result



