from shexer.consts import JSON, FIXED_SHAPE_MAP
from shexer.io.shape_map.shape_map_parser import JsonShapeMapParser, FixedShapeMapParser

def get_shape_map_parser(format, sgraph, namespaces_prefix_dict):
    if format == JSON:
        return JsonShapeMapParser(sgraph=sgraph,
                                  namespaces_prefix_dict=namespaces_prefix_dict)
    elif format == FIXED_SHAPE_MAP:
        return FixedShapeMapParser(namespaces_prefix_dict=namespaces_prefix_dict,
                                   sgraph=sgraph)
    else:
        raise ValueError("ShapeMap format not recognized:" + format)
