from shexer.consts import SHEXC, SHACL_TURTLE
from shexer.io.shex.formater.shex_serializer import ShexSerializer
from shexer.io.shacl.formater.shacl_serializer import ShaclSerializer
from shexer.io.uml.uml_serializer import UMLSerializer
from shexer.consts import RATIO_INSTANCES, UML_PLANT_SERVER


def get_shape_serializer(output_format, shapes_list, target_file=None, string_return=False, namespaces_dict=None,
                         instantiation_property=None, disable_comments=False, wikidata_annotation=False,
                         instances_report_mode=RATIO_INSTANCES, detect_minimal_iri=False, shape_features_examples=None,
                         examples_mode=None, inverse_paths=False):
    if output_format == SHEXC:
        return ShexSerializer(target_file=target_file,
                              shapes_list=shapes_list,
                              namespaces_dict=namespaces_dict,
                              string_return=string_return,
                              instantiation_property_str=instantiation_property,
                              disable_comments=disable_comments,
                              wikidata_annotation=wikidata_annotation,
                              instances_report_mode=instances_report_mode,
                              detect_minimal_iri=detect_minimal_iri,
                              shape_example_features=shape_features_examples,
                              examples_mode=examples_mode,
                              inverse_paths=inverse_paths)
    elif output_format == SHACL_TURTLE:
        return ShaclSerializer(target_file=target_file,
                               shapes_list=shapes_list,
                               namespaces_dict=namespaces_dict,
                               string_return=string_return,
                               instantiation_property_str=instantiation_property,
                               wikidata_annotation=wikidata_annotation,
                               shape_example_features=shape_features_examples,
                               detect_minimal_iri=detect_minimal_iri)
    else:
        raise ValueError("Currently unsupported format in 'output_format': " + output_format)


def get_uml_serializer(shapes_list, image_path, url_server=UML_PLANT_SERVER, namespaces_dict=None,):
    return UMLSerializer(shapes_list=shapes_list,
                         url_server=url_server,
                         image_path=image_path,
                         namespaces_dict=namespaces_dict)