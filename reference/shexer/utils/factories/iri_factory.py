from shexer.model.IRI import IRI
from shexer.utils.uri import remove_corners

def create_IRI_from_string(an_str):
    return IRI(content=an_str)


def create_IRIs_from_string_list(str_list):
    result = []
    for an_str in str_list:
        result.append(create_IRI_from_string(remove_corners(a_uri=an_str,
                                                            raise_error_if_no_corners=False)))
    return result

