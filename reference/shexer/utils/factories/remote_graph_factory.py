from shexer.model.graph.endpoint_sgraph import EndpointSGraph

def get_remote_graph_if_needed(endpoint_url, store_locally):
    if endpoint_url is None:
        return None
    return EndpointSGraph(endpoint_url=endpoint_url,
                          store_locally=store_locally)