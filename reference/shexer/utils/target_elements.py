from shexer.utils.shapes import build_shapes_name_for_class_uri
from shexer.utils.uri import remove_corners, unprefixize_uri_if_possible


def tune_target_classes_if_needed(list_target_classes, prefix_namespaces_dict):
    result = []
    for a_original_class in list_target_classes:
        if a_original_class.startswith("<"):
            result.append(remove_corners(a_uri=a_original_class))
        else:
            result.append(unprefixize_uri_if_possible(target_uri=a_original_class,
                                                      prefix_namespaces_dict=prefix_namespaces_dict,
                                                      include_corners=False))
    return result

def determine_original_target_nodes_if_needed(remove_empty_shapes, original_target_classes, original_shape_map, shapes_namespace):
    if not remove_empty_shapes:
        return None  # We dont need this structure if there are no shapes to remove.
    result = set()
    if original_target_classes is not None:
        for a_class in original_target_classes:
            result.add(build_shapes_name_for_class_uri(class_uri=a_class,
                                                       shapes_namespace=shapes_namespace))
    if original_shape_map is not None:
        for an_item in original_shape_map.yield_items():
            result.add(an_item.shape_label)
    return result