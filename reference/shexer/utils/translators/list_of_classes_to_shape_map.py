from shexer.model.shape_map import ShapeMap, ShapeMapItem
from shexer.io.shape_map.node_selector.node_selector_parser import NodeSelectorParser


class ListOfClassesToShapeMap(object):

    def __init__(self, sgraph, prefix_namespaces_dict):
        self._sgraph = sgraph
        self._selector_parser = NodeSelectorParser(prefix_namespaces_dict=prefix_namespaces_dict,
                                                   sgraph=sgraph)

    def str_class_list_to_shape_map_sparql_selectors(self, str_list, instantiation_property, limit_remote_instances):
        result = ShapeMap()
        instantiation_property = str(instantiation_property)
        for str_class in str_list:
            raw_selector = self._get_raw_selector_to_catch_instances_of_class_uri(class_uri=str_class,
                                                                                  instantiation_property=instantiation_property,
                                                                                  limit_remote_instances=limit_remote_instances)
            result.add_item(ShapeMapItem(node_selector=self._get_node_selector_object_for_raw_selector(raw_selector),
                                         shape_label=self._get_shape_label_for_class_uri(str_class)))
        return result

    def model_class_list_to_shape_map_sparql_selectors(self, obj_list, instantiation_property, limit_remote_instances):
        return self.str_class_list_to_shape_map_sparql_selectors(str_list=[str(an_elem) for an_elem in obj_list],
                                                                 instantiation_property=instantiation_property,
                                                                 limit_remote_instances=limit_remote_instances)

    def _get_shape_label_for_class_uri(self, class_uri):
        if "#" in class_uri and class_uri[-1] != "#":
            return class_uri[class_uri.rfind("#") + 1:]
        if "/" in class_uri:
            if class_uri[-1] != "/":
                return class_uri[class_uri.rfind("/") + 1:]
            else:
                return class_uri[class_uri[:-1].rfind("/") + 1:]
        else:
            return class_uri

    def _get_raw_selector_to_catch_instances_of_class_uri(self, class_uri, instantiation_property, limit_remote_instances):
        return 'SPARQL "select ?s where {{ ?s <{prop}> <{class_uri}> . FILTER (!isBlank(?s)) }} {limit}"'.format(  # FILTER (!isBlank(?c))
            class_uri=class_uri,
            prop=instantiation_property,
            limit="" if limit_remote_instances < 0 else "LIMIT " + str(limit_remote_instances)
        )
        # return '{' + 'FOCUS <{prop}> <{class_uri}>'.format(class_uri=class_uri, prop=instantiation_property) + '}'

    def _get_node_selector_object_for_raw_selector(self, raw_selector):
        return self._selector_parser.parse_node_selector(raw_selector=raw_selector)


