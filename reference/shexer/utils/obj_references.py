
def check_just_one_not_none(*value_refname):
    nones=0
    for a_tuple in value_refname:
        if a_tuple[0] is not None:
            nones += 1
    if nones != 1:
        raise ValueError(error_message_for_non_compatible_references([a_tuple[1] for a_tuple in value_refname]))


def check_one_or_zero_not_none(*value_refname):
    nones=0
    for a_tuple in value_refname:
        if a_tuple[0] is not None:
            nones += 1
    if nones > 1:
        raise ValueError(error_message_for_non_compatible_references(
            list_of_ref_names=[a_tuple[1] for a_tuple in value_refname],
            one_mandatory=False))


def error_message_for_non_compatible_references(list_of_ref_names, one_mandatory=True):
    if one_mandatory:
        return "You must provide one and only one of the following params: " + str(list_of_ref_names)
    return "You must provide one as most of the following params: " + str(list_of_ref_names)


