from gzip import open as gzopen
from zipfile import ZipFile
from xz import open as xzopen


def get_content_xz_file(xz_path):
    with xzopen(xz_path, "r") as in_stream:
        return in_stream.read()


def get_content_gz_file(gz_path):
    with gzopen(gz_path, "r") as in_stream:
        return in_stream.read()


def yield_contents_zip_dir(zip_path):
    with ZipFile(zip_path, 'r') as zip:
        for a_file_path in zip.filelist:
            with zip.open(a_file_path) as in_file:
                yield in_file.read()

def get_content_zip_internal_file(base_archive, target_file):
    with base_archive.open(target_file, "r") as in_file:
        return in_file.read()

def list_of_zip_internal_files(zip_base_archive):
    return zip_base_archive.namelist()