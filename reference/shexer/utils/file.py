
def load_whole_file_content(source_file):
    with open(source_file, "r") as in_stream:
        return in_stream.read()