
_MIN_IRI_POS = 0
_EXAMPLE_ENTITY_POS = 1
_PROP_FEATURES_POS = 2


_POS_DIRECT = 0
_POS_INVERSE = 1


class ShapeExampleFeaturesDict(object):

    def __init__(self, track_inverse_features):
        self._base_dict = {}
        self._track_inverse_features = track_inverse_features
        self._init_example_tracking_methods()


    def _init_example_tracking_methods(self):
        if self._track_inverse_features:
            self.has_constraint_example = self._has_constraint_example_inverse
            self.set_constraint_example = self._set_constraint_example_inverse
            self.get_constraint_example = self._get_constraint_example_inverse
        else:
            self.has_constraint_example = self._has_constraint_example_no_inverse
            self.set_constraint_example = self._set_constraint_example_no_inverse
            self.get_constraint_example = self._get_constraint_example_no_inverse


    def set_shape_min_iri(self, shape_id, min_iri):
        if shape_id not in self._base_dict:
            self._init_shape(shape_id)
        self._base_dict[shape_id][_MIN_IRI_POS] = min_iri

    def shape_min_iri(self, shape_id):
        return self._base_dict[shape_id][_MIN_IRI_POS]

    def set_shape_example(self, shape_id, example_iri):
        if shape_id not in self._base_dict:
            self._init_shape(shape_id)
        self._base_dict[shape_id][_EXAMPLE_ENTITY_POS] = example_iri

    def shape_example(self, shape_id):
        if shape_id not in self._base_dict:
            return False
        return self._base_dict[shape_id][_EXAMPLE_ENTITY_POS]

    def _init_shape(self, shape_id):
        self._base_dict[shape_id] = [None, None, {} if not self._track_inverse_features else [{}, {}]]


    def has_constraint_example(self, shape_id, prop_id):
        raise NotImplementedError()

    def _has_constraint_example_abstract(self):
        raise NotImplementedError()

    def set_constraint_example(self, shape_id, prop, example):
        raise NotImplementedError()

    def get_constraint_example(self, shape_id, prop):
        raise NotImplementedError()

    def _get_constraint_example_no_inverse(self, shape_id, prop):
        return self._base_dict[shape_id][_PROP_FEATURES_POS][prop]

    def _get_constraint_example_inverse(self, shape_id, prop, inverse):
        return self._base_dict[shape_id][_PROP_FEATURES_POS][_POS_INVERSE if inverse else _POS_DIRECT][prop]

    def _set_constraint_example_no_inverse(self, shape_id, prop_id, example):
        if shape_id not in self._base_dict:
            self._init_shape(shape_id)
        self._base_dict[shape_id][_PROP_FEATURES_POS][prop_id] = example

    def _set_constraint_example_inverse(self, shape_id, prop_id, example, inverse):
        if shape_id not in self._base_dict:
            self._init_shape(shape_id)
        self._base_dict[shape_id][_PROP_FEATURES_POS][_POS_INVERSE if inverse else _POS_DIRECT][prop_id] = example

    def _has_constraint_example_no_inverse(self, shape_id, prop_id):
        if shape_id not in self._base_dict:
            return False
        return prop_id in self._base_dict[shape_id][_PROP_FEATURES_POS]

    def _has_constraint_example_inverse(self, shape_id, prop_id, inverse):
        if shape_id not in self._base_dict:
            return False
        return  prop_id in self._base_dict[shape_id][_PROP_FEATURES_POS][_POS_INVERSE if inverse else _POS_DIRECT]