import sys
from datetime import datetime

def _curr_time():
    return datetime.now().strftime("%d/%m/%Y %H:%M:%S -- ")


# def log_to_error(msg, source=None, target_log=sys.stderr):
#     # pass
#     print(msg + ". Source: " + (source if source is not None else "Not specified"), file=target_log)


def log_msg(verbose, msg, err=True):
    if verbose:
        print(_curr_time() + msg, flush=True, file=None if not err else sys.stderr)