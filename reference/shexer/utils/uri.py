from shexer.model.shape import STARTING_CHAR_FOR_SHAPE_NAME

XSD_NAMESPACE = "http://www.w3.org/2001/XMLSchema#"
XSD_PREFIX = "xsd"

RDF_SYNTAX_NAMESPACE = "http://www.w3.org/1999/02/22-rdf-syntax-ns#"
RDF_PREFIX = "rdf"
RDF_TYPE = "http://www.w3.org/1999/02/22-rdf-syntax-ns#type"

DT_NAMESPACE = "http://dbpedia.org/datatype/"
DT_PREFIX = "dt"

OPENGIS_NAMESPACE = "http://www.opengis.net/ont/geosparql#"
OPENGIS_PREFIX = "geo"

LANG_STRING_TYPE = "http://www.w3.org/1999/02/22-rdf-syntax-ns#langString"
STRING_TYPE = "http://www.w3.org/2001/XMLSchema#string"
FLOAT_TYPE = "http://www.w3.org/2001/XMLSchema#float"
INTEGER_TYPE = "http://www.w3.org/2001/XMLSchema#integer"

LANG_TAG_MARK = "@"


def _add_prefix(unprefixed_elem, prefix):
    return prefix + ":" + unprefixed_elem


def remove_corners(a_uri, raise_error_if_no_corners=True):
    if a_uri.startswith("<") and a_uri.endswith(">"):
        return a_uri[1:-1]
    if raise_error_if_no_corners:
        raise ValueError("Wrong parameter of function: '" + a_uri + "'")
    else:
        return a_uri


def add_corners(a_uri):
    return "<" + a_uri + ">"

def add_corners_if_needed(a_uri):
    if a_uri.startswith("<"):
        return a_uri
    return add_corners(a_uri)

def longest_common_prefix(uri1, uri2):
    """
    It returns an str containing the longest possible common initial part of uri1 and uri2

    :param uri1:
    :param uri2:

    :return:
    """

    if len(uri1) == 0 or len(uri2) == 0:
        return ""
    shortest = len(uri1) if len(uri1) < len(uri2) else len(uri2)
    for i in range(shortest):
        if uri1[i] != uri2[i]:
            return uri1[:i]
    return uri1[:shortest]

def add_corners_if_it_is_an_uri(a_candidate_uri):
    if a_candidate_uri.startswith("http://") or a_candidate_uri.startswith("https://"):  # TODO, check this!
        return "<" + a_candidate_uri + ">"
    return a_candidate_uri


def decide_literal_type(a_literal, base_namespace=None):
    if there_is_arroba_after_last_quotes(a_literal):
        return LANG_STRING_TYPE
    type_mark = a_literal[a_literal.rfind('"'):]  # What follows the lexical form. The content must not decide the type
    if "\"^^" not in type_mark:
        return STRING_TYPE
    elif "xsd:" in type_mark:
        return XSD_NAMESPACE + type_mark[type_mark.find("xsd:") + 4:]
    elif "rdf:" in type_mark:
        return RDF_SYNTAX_NAMESPACE + type_mark[type_mark.find("rdf:")+ 4:]
    elif "dt:" in type_mark:
        return DT_NAMESPACE + type_mark[type_mark.find("dt:")+ 3:]
    elif "geo:" in type_mark:
        return OPENGIS_NAMESPACE + type_mark[type_mark.find("geo:") + 4:]
    elif XSD_NAMESPACE in type_mark or RDF_SYNTAX_NAMESPACE in type_mark \
            or DT_NAMESPACE in type_mark or OPENGIS_NAMESPACE in type_mark:
        return type_mark[type_mark.find("\"^^")+4:-1]
    elif type_mark.strip().endswith(">"):
        candidate_type = type_mark[type_mark.find("\"^^") + 4:-1]  # plain uri, no corners
        if base_namespace is not None and not candidate_type.startswith("http"):
            return base_namespace + candidate_type
        return candidate_type
    else:
        raise RuntimeError("Unrecognized literal type:" + a_literal)


def is_a_correct_uri(target_uri, prefix_namespace_dict):
    """
    TODO: Here I am assuming that there is no forbiden char ( " < > # % { } | \ ^ ~ [ ] ` )
    :param target_uri:
    :param prefix_namespace_dict:
    :return:
    """
    if target_uri[0] == "<" and target_uri[-1] == ">":
        return True
    for a_prefix in prefix_namespace_dict:
        if target_uri.startswith(a_prefix + ":"):
            return True
        return False


def there_is_arroba_after_last_quotes(target_str):
    if target_str.rfind(LANG_TAG_MARK) > target_str.rfind('"'):
        return True
    return False


def parse_literal(an_elem, base_namespace=None):
    content = an_elem[1:an_elem.find('"', 1)]
    elem_type = decide_literal_type(a_literal=an_elem,
                                    base_namespace=base_namespace)
    return content, elem_type

def parse_unquoted_literal(an_elem):
    elem_type = decide_literal_type(an_elem)
    return an_elem, elem_type


def unprefixize_uri_if_possible(target_uri, prefix_namespaces_dict, include_corners=True):
    for a_prefix in prefix_namespaces_dict:
        if target_uri.startswith(a_prefix+":"):
            result = target_uri.replace(a_prefix+":", prefix_namespaces_dict[a_prefix])
            if include_corners:
                result = add_corners(result)
            return result
    return target_uri

def unprefixize_uri_mandatory(target_uri, prefix_namespaces_dict, include_corners=True):
    for a_prefix in prefix_namespaces_dict:
        if target_uri.startswith(a_prefix+":"):
            result = target_uri.replace(a_prefix+":", prefix_namespaces_dict[a_prefix])
            if include_corners:
                result = add_corners(result)
            return result
    raise ValueError("Unrecognized prefix in the following element" + target_uri)


def prefixize_uri_if_possible(target_uri, namespaces_prefix_dict, corners=True):
    best_match = None
    candidate_uri = remove_corners(target_uri) if corners else target_uri
    for a_namespace in namespaces_prefix_dict:  # Prefixed element (all literals are prefixed elements)
        if candidate_uri.startswith(a_namespace):
            if "/" not in candidate_uri[len(a_namespace):] and \
                "#" not in candidate_uri[len(a_namespace):]:
                best_match = a_namespace
                break
            # if best_match is None or len(best_match) < len(a_namespace):
            #     best_match = a_namespace

    return target_uri if best_match is None else candidate_uri.replace(best_match, namespaces_prefix_dict[best_match] + ":")






