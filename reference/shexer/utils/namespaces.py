import string
import random

_PRIORITY_PREFIXES_FOR_SHAPES = ["", "weso-s", "shapes", "w-shapes"]
_RAND_PREFIX_LENGHT = 3

def find_adequate_prefix_for_shapes_namespaces(current_namespace_prefix_dict):
    curr_prefixes = current_namespace_prefix_dict.values()
    for a_prefix in _PRIORITY_PREFIXES_FOR_SHAPES:
        if a_prefix not in curr_prefixes:
            return a_prefix
    # At this point, all the deff prefixes are used. So we generate a random one
    candidate = get_random_string(3)
    while candidate in curr_prefixes:
        candidate = get_random_string(3)
    return candidate

def get_random_string(length):
    result_str = ''.join(random.choice(string.ascii_lowercase) for i in range(length))
    return result_str
