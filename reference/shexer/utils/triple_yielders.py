from shexer.model.IRI import IRI
from shexer.model.property import Property
from shexer.model.Literal import Literal
from shexer.model.bnode import BNode
from shexer.utils.uri import remove_corners, parse_literal, parse_unquoted_literal, FLOAT_TYPE, INTEGER_TYPE


def check_if_property_belongs_to_namespace_list(str_prop, namespaces):
    """
    It return True if the property balongs to some namespace directly, i.e.,
    without adding any hierarchical element before reaching the name of the property itself.
    Example:
    Property http:example.org/prop, namespace http:example.org/ ---> True
    Property http:example.org/properties/prop, namespace http:example.org/ ---> False
    :param str_prop:
    :param namespaces:
    :return:
    """
    for a_namespace in namespaces:
        if str_prop.startswith(a_namespace):
            if "/" not in str_prop[len(a_namespace):] and "#" not in str_prop[len(a_namespace):]:
                return True
    return False


def tune_subj(a_token, raise_error_if_no_corners=True):
    if a_token.startswith("<"):
        return IRI(remove_corners(a_uri=a_token,
                                  raise_error_if_no_corners=raise_error_if_no_corners))
    elif a_token.startswith("_:"):
        return BNode(identifier=a_token)
    elif a_token.strip() == "[]":
        return BNode(identifier=a_token)

    else:  # ???
        raise ValueError("Unrecognized token in subject position: " + a_token)


def tune_token(a_token, allow_untyped_numbers=False, raise_error_if_no_corners=True, base_namespace=None):
    if a_token.startswith("<"):
        return IRI(remove_corners(a_uri=a_token,
                                  raise_error_if_no_corners=raise_error_if_no_corners))
    elif a_token.startswith('"'):
        content, elem_type = parse_literal(an_elem=a_token,
                                           base_namespace=base_namespace)
        return Literal(content=content,
                       elem_type=elem_type)
    elif a_token.startswith("_:"):
        return BNode(identifier=a_token)
    elif a_token.strip() == "[]":
        return BNode(identifier=a_token)
    if allow_untyped_numbers:
        try:
            candidate_float = float(a_token)
            if _is_integer(candidate_float):
                return Literal(content=a_token.strip(),
                               elem_type=INTEGER_TYPE)
            return Literal(content=a_token.strip(),
                           elem_type=FLOAT_TYPE)
        except:
            pass

    content, elem_type = parse_unquoted_literal(a_token)
    return Literal(content=content,
                   elem_type=elem_type)


def _is_integer(float_number):
    if float_number % 1.0 == 0:
        return True
    return False


def tune_prop(a_token, raise_error_if_no_corners=True):
    return Property(remove_corners(a_uri=a_token,
                                   raise_error_if_no_corners=raise_error_if_no_corners))
