from shexer.model.shape import STARTING_CHAR_FOR_SHAPE_NAME
from shexer.utils.uri import prefixize_uri_if_possible
from shexer.io.shex.formater.consts import SHAPE_LINK_CHAR

def build_shapes_name_for_class_uri(class_uri, shapes_namespace):

    if class_uri.startswith("@"): # special shape case
        return class_uri
    if class_uri.startswith("<") and class_uri.endswith(">"):
        return STARTING_CHAR_FOR_SHAPE_NAME + class_uri
    last_piece = class_uri
    if "#" in last_piece and last_piece[-1] != "#":
        last_piece = last_piece[last_piece.rfind("#") + 1:]
    if "/" in last_piece:
        if last_piece[-1] != "/":
            last_piece = last_piece[last_piece.rfind("/") + 1:]
        else:
            last_piece = last_piece[last_piece[:-1].rfind("/") + 1:]
    if last_piece.endswith(">"):
        last_piece = last_piece[:-1]
    if last_piece.startswith("<"):
        last_piece = last_piece[1:]
    return STARTING_CHAR_FOR_SHAPE_NAME + "<" + shapes_namespace + last_piece + ">" if last_piece is not None else class_uri
        # return class_uri


def build_shape_name_for_qualifier_prop_uri(prop_uri, shapes_namespace):  # TODO REVIEW!
    last_piece = None
    if "#" in prop_uri and prop_uri[-1] != "#":
        last_piece = prop_uri[prop_uri.rfind("#") + 1:]
    if "/" in prop_uri:
        if prop_uri[-1] != "/":
            last_piece = prop_uri[prop_uri.rfind("/") + 1:]
        else:
            last_piece = prop_uri[prop_uri[:-1].rfind("/") + 1:]
    if last_piece is not None:
        return STARTING_CHAR_FOR_SHAPE_NAME + "<" + shapes_namespace + last_piece + ">"
    return STARTING_CHAR_FOR_SHAPE_NAME + prop_uri.upper()


def prefixize_shape_name_if_possible(a_shape_name, namespaces_prefix_dict):
    result = prefixize_uri_if_possible(target_uri=a_shape_name[1:],                  # Avoid the "from shexer.model.shape. STARTING_CHAR_FOR_SHAPE_NAME starting char
                                       namespaces_prefix_dict=namespaces_prefix_dict)
    return result