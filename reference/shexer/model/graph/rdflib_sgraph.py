from rdflib import URIRef, Graph, Literal, BNode
from shexer.model.graph.abstract_sgraph import SGraph
from shexer.utils.triple_yielders import tune_token, tune_prop, tune_subj
from shexer.utils.uri import add_corners_if_it_is_an_uri, remove_corners
from shexer.core.instances.pconsts import _S, _P, _O
from shexer.model.IRI import IRI as ModelIRI
from shexer.model.property import Property as ModelProperty
from shexer.model.Literal import Literal as ModelLiteral
from shexer.model.bnode import BNode as ModelBnode
from shexer.consts import RDF_TYPE



class RdflibSgraph(SGraph):

    def __init__(self, rdflib_graph=None, source_file=None, raw_graph=None, format="turtle"):
        """
        Pass an rdflib.Graph object or the params source_file and format to parse a local rdf

        :param rdflib_graph:
        :param source_file:
        :param format:
        """
        super().__init__()
        self._rdflib_graph = rdflib_graph if rdflib_graph is not None else self._build_rdflib_graph(source=source_file,
                                                                                                    raw_graph=raw_graph,
                                                                                                    format=format)

    def query_single_variable(self, str_query, variable_id):
        rows_res = self._rdflib_graph.query(str_query)
        return [str(a_row[0]) for a_row in rows_res]

    def serialize(self, path, format):
        self._rdflib_graph.serialize(destination=path,
                                     format=format)

    def yield_p_o_triples_of_an_s(self, target_node):
        for s, p ,o in self._rdflib_graph.triples((URIRef(remove_corners(a_uri=target_node,
                                                                         raise_error_if_no_corners=False)),
                                                   None,
                                                   None)):
            yield self._add_URI_corners_if_needed(s),\
                  self._add_URI_corners_if_needed(p),\
                  self._add_URI_corners_if_needed(self._add_lang_if_needed(o))

    def yield_s_p_triples_of_an_o(self, target_node):
        for s, p, o in self._rdflib_graph.triples((None,
                                                   None,
                                                   URIRef(remove_corners(a_uri=target_node,
                                                                         raise_error_if_no_corners=False)))):
            yield self._add_URI_corners_if_needed(s),\
                  self._add_URI_corners_if_needed(p),\
                  self._add_URI_corners_if_needed(o)


    def yield_class_triples_of_an_s(self, target_node, instantiation_property):
        for s ,p, o in self._rdflib_graph.triples((URIRef(remove_corners(a_uri=target_node,
                                                                         raise_error_if_no_corners=False)),
                                                   URIRef(remove_corners(a_uri=instantiation_property,
                                                                         raise_error_if_no_corners=False)),
                                                   None)):
            yield self._add_URI_corners_if_needed(s),\
                  self._add_URI_corners_if_needed(p),\
                  self._add_URI_corners_if_needed(self._add_lang_if_needed(o))

    def add_triple(self, a_triple):
        """
        It receives a tuple of 3 string elements. It adds it to the local rdflib graph
        :param a_triple:
        :return:
        """

        subj = tune_subj(add_corners_if_it_is_an_uri(a_triple[_S]),
                         raise_error_if_no_corners=False)
        prop = tune_prop(add_corners_if_it_is_an_uri(a_triple[_P]),
                         raise_error_if_no_corners=False)
        obj = tune_token(add_corners_if_it_is_an_uri(a_triple[_O]),
                         raise_error_if_no_corners=False)

        self._rdflib_graph.add((self._turn_obj_into_rdflib_element(subj),
                                self._turn_obj_into_rdflib_element(prop),
                                self._turn_obj_into_rdflib_element(obj)))

    def yield_classes_with_instances(self, instantiation_property=RDF_TYPE):
        result = set()
        for s ,_, _ in self._rdflib_graph.triples((None,
                                                   URIRef(remove_corners(a_uri=instantiation_property,
                                                                         raise_error_if_no_corners=False)),
                                                   None)):
            result.add(str(s))
        for elem in result:
            yield elem


    def _turn_obj_into_rdflib_element(self, model_elem):
        if type(model_elem) == ModelIRI or type(model_elem) == ModelProperty:
            return URIRef(model_elem.iri)
        elif type(model_elem) == ModelLiteral:
            return Literal(lexical_or_value=str(model_elem),
                           datatype=model_elem.elem_type)
        elif type(model_elem) == ModelBnode:
            return BNode(value=str(model_elem))
        else:
            raise ValueError("Unexpected type of element. " + str(model_elem) + ": " + str(type(model_elem)))


    def _build_rdflib_graph(self, source, raw_graph, format):
        result = Graph()
        if source is not None:
            result.parse(source=source, format=format)
        else:
            result.parse(data=raw_graph, format=format)
        return result

    def _add_lang_if_needed(self, rdflib_obj):
        """
        It returns a string representation with lang if it is a langString
        :param rdflib_obj:
        :return:
        """
        if type(rdflib_obj) == Literal and rdflib_obj.language is not None:
           return '"' + str(rdflib_obj) + '"@' + rdflib_obj.language
        return rdflib_obj

    def _add_URI_corners_if_needed(self, rdflib_obj):
        if type(rdflib_obj) == URIRef:
            return "<"+ str(rdflib_obj) + ">"
        return str(rdflib_obj)