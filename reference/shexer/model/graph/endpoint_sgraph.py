from shexer.io.sparql.query import \
    query_endpoint_po_of_an_s, \
    query_endpoint_single_variable, \
    query_endpoint_sp_of_an_o
from shexer.model.graph.abstract_sgraph import SGraph
from shexer.model.graph.rdflib_sgraph import RdflibSgraph
from shexer.utils.uri import remove_corners
from rdflib import Graph
from shexer.consts import RDF_TYPE

_DEF_SUBJ_VARIABLE = "?s"
_DEF_SUBJ_ID = "s"

_DEF_PRED_VARIABLE = "?p"
_DEF_PRED_ID = "p"

_DEF_OBJ_VARIABLE = "?o"
_DEF_OBJ_ID = "o"

class EndpointSGraph(SGraph):

    def __init__(self, endpoint_url, store_locally=True):
        super().__init__()
        self._endpoint_url = endpoint_url
        self._store_locally = store_locally
        self._local_sgraph = RdflibSgraph(rdflib_graph=Graph()) if store_locally else None
        self._subjects_tracked = set() if store_locally else None
        self._objects_tracked = set() if store_locally else None



    def query_single_variable(self, str_query, variable_id):
        return query_endpoint_single_variable(variable_id=variable_id,
                                              str_query=str_query,
                                              endpoint_url=self._endpoint_url)

    def serialize_current_local_sgraph(self, path_file, format):
        if self._local_sgraph is not None:
            self._local_sgraph.serialize(path=path_file,
                                         format=format)


    def yield_class_triples_of_an_s(self, target_node, instantiation_property):
        if not self._store_locally:
            for a_triple in self._yield_remote_class_triples_of_an_s(target_node, instantiation_property):
                yield a_triple
        else:
            for a_triple in self._yield_local_class_triples_of_an_s(target_node, instantiation_property):
                yield a_triple

    def yield_classes_with_instances(self, instantiation_property=RDF_TYPE):
        str_query = "SELECT distinct {0} where {{ {1} <{2}> {0} . }}".format(_DEF_OBJ_VARIABLE,
                                                                             _DEF_SUBJ_VARIABLE,
                                                                              remove_corners(
                                                                                  a_uri=instantiation_property,
                                                                                  raise_error_if_no_corners=False)
                                                                              )
        for an_elem in query_endpoint_single_variable(endpoint_url=self._endpoint_url,
                                                      str_query=str_query,
                                                      variable_id=_DEF_OBJ_ID):
            yield str(an_elem)


    def _yield_remote_class_triples_of_an_s(self, target_node, instantiation_property):
        str_query = "SELECT {0} WHERE {{ <{1}> <{2}> {0} . }}".format(_DEF_OBJ_VARIABLE,
                                                                      remove_corners(a_uri=target_node,
                                                                                     raise_error_if_no_corners=False),
                                                                      remove_corners(a_uri=instantiation_property,
                                                                                     raise_error_if_no_corners=False))
        for an_elem in query_endpoint_single_variable(endpoint_url=self._endpoint_url,
                                                      str_query=str_query,
                                                      variable_id=_DEF_OBJ_ID):
            yield ("<" + target_node + ">", "<" + instantiation_property + ">", an_elem)


    def _yield_local_class_triples_of_an_s(self, target_node, instantiation_property):
        if target_node not in self._subjects_tracked:
            for a_triple in self._yield_remote_class_triples_of_an_s(target_node, instantiation_property):
                self._store_triple_locally(a_triple)
            self._subjects_tracked.add(target_node)
        for a_triple in self._local_sgraph.yield_class_triples_of_an_s(target_node, instantiation_property):
            yield a_triple


    def yield_p_o_triples_of_an_s(self, target_node):
        if not self._store_locally:
            for a_triple in self._yield_remote_p_o_triples_of_an_s(target_node):
                yield a_triple
        else:
            for a_triple in self._yield_local_p_o_triples_of_an_s(target_node):
                yield a_triple

    def yield_s_p_triples_of_an_o(self, target_node):
        if not self._store_locally:
            for a_triple in self._yield_remote_s_p_triples_of_an_o(target_node):
                yield a_triple
        else:
            for a_triple in self._yield_local_s_p_triples_of_an_o(target_node):
                yield a_triple


    def _yield_remote_p_o_triples_of_an_s(self, target_node):
        str_query = "SELECT {0} {1} WHERE {{ <{2}> {0} {1} .}} ".format(_DEF_PRED_VARIABLE,
                                                                        _DEF_OBJ_VARIABLE,
                                                                        remove_corners(a_uri=target_node,
                                                                                       raise_error_if_no_corners=False))
        for a_tuple_po in query_endpoint_po_of_an_s(endpoint_url=self._endpoint_url,
                                                    str_query=str_query,
                                                    p_id=_DEF_PRED_ID,
                                                    o_id=_DEF_OBJ_ID):
            yield "<" + target_node + ">", a_tuple_po[0], a_tuple_po[1]

    def _yield_remote_s_p_triples_of_an_o(self, target_node):
        str_query = "SELECT {0} {1} WHERE {{ {0} {1} <{2}> .}}".format(_DEF_SUBJ_VARIABLE,
                                                                       _DEF_PRED_VARIABLE,
                                                                       remove_corners(a_uri=target_node,
                                                                                      raise_error_if_no_corners=False))
        for a_tuple_sp in query_endpoint_sp_of_an_o(endpoint_url=self._endpoint_url,
                                                    str_query=str_query,
                                                    p_id=_DEF_PRED_ID,
                                                    s_id=_DEF_SUBJ_ID):
            yield a_tuple_sp[0], a_tuple_sp[1], "<" + target_node + ">"


    def _yield_local_p_o_triples_of_an_s(self, target_node):
        if target_node not in self._subjects_tracked:
            for a_triple in self._yield_remote_p_o_triples_of_an_s(target_node):
                self._store_triple_locally(a_triple)
            self._subjects_tracked.add(target_node)
        for a_triple in self._local_sgraph.yield_p_o_triples_of_an_s(target_node):
            yield a_triple

    def _yield_local_s_p_triples_of_an_o(self, target_node):
        if target_node not in self._objects_tracked:
            for a_triple in self._yield_remote_s_p_triples_of_an_o(target_node):
                self._store_triple_locally(a_triple)
            self._objects_tracked.add(target_node)
        for a_triple in self._local_sgraph.yield_s_p_triples_of_an_o(target_node):
            yield a_triple

    def _store_triple_locally(self, a_triple):
        self._local_sgraph.add_triple(a_triple)