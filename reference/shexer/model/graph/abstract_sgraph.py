from shexer.consts import RDF_TYPE

class SGraph(object):

    def __init__(self):
        pass

    def query_single_variable(self, str_query, variable_id):
        """
        It receives an SPARQL query with a single variable and returns a list with the nodes matching that query

        :param str_query:
        :param variable_id:
        :return: list
        """
        raise NotImplementedError()

    def yield_p_o_triples_of_an_s(self, target_node):
        """
        Here it expects unprefixed URIs. So there is no stage of namespaces management to build a query.

        :param target_node:
        :return:
        """
        raise NotImplementedError()

    def yield_s_p_triples_of_an_o(self, target_node):
        """
        Here it expects unprefixed URIs. So there is no stage of namespaces management to build a query.
        :param target_node:
        :return:
        """
        raise NotImplementedError()

    def yield_class_triples_of_an_s(self, target_node, instantiation_property):
        """
        Here it expects unprefixed URIs. So there is no stage of namespaces management to build a query.

        :param target_node:
        :param instantiation_property:
        :return:
        """
        raise NotImplementedError()

    def yield_s_p_triples_of_target_nodes(self, target_nodes, depth, classes_at_last_level=True,
                                          instantiation_property=RDF_TYPE, already_visited=None,
                                          strict_syntax_with_uri_corners=True
                                          ):
        """
        If it is provided, the param already_visited can be modified during the execution of this method.
        The set already_visited can be used to avoid repetition of triples calling this methodd repeatedly
        for different node selectors in a shape map.

        :param target_nodes:
        :param depth:
        :param classes_at_last_level:
        :param instantiation_property:
        :param already_visited:
        :param strict_syntax_with_uri_corners:
        :return:
        """
        current_already_visited = set() if already_visited is None else already_visited
        list_of_current_target_nodes = target_nodes
        new_target_nodes = []
        while depth > 0:
            for a_node in list_of_current_target_nodes:
                if a_node not in current_already_visited:
                    current_already_visited.add(a_node)
                    for a_triple in self.yield_s_p_triples_of_an_o(a_node):
                        yield a_triple
                        if self._is_an_unprefixed_iri(an_iri=a_triple[0],
                                                      strict_syntax_with_uri_corners=strict_syntax_with_uri_corners):
                            new_target_nodes.append(a_triple[0])
            depth -= 1
            list_of_current_target_nodes = new_target_nodes
            new_target_nodes = []
            if depth == 0 and classes_at_last_level:
                for a_node in list_of_current_target_nodes:
                    if a_node not in current_already_visited:
                        for a_triple in self.yield_class_triples_of_an_s(target_node=a_node,
                                                                         instantiation_property=instantiation_property):
                            yield a_triple

    def yield_p_o_triples_of_target_nodes(self, target_nodes, depth, classes_at_last_level=True,
                                          instantiation_property=RDF_TYPE, already_visited=None,
                                          strict_syntax_with_uri_corners=True):
        """
        If it is provided, the param already_visited can be modified during the execution of this method.
        The set already_visited can be used to avoid repetition of triples calling this methodd repeatedly
        for different node selectors in a shape map.

        :param target_nodes:
        :param depth:
        :param classes_at_last_level:
        :param instantiation_property:
        :param already_visited:
        :param strict_syntax_with_uri_corners:
        :return:
        """

        current_already_visited = set() if already_visited is None else already_visited
        list_of_current_target_nodes = target_nodes
        new_target_nodes = []
        while depth > 0:
            for a_node in list_of_current_target_nodes:
                if a_node not in current_already_visited:
                    current_already_visited.add(a_node)
                    for a_triple in self.yield_p_o_triples_of_an_s(a_node):
                        yield a_triple
                        if self._is_an_unprefixed_iri(an_iri=a_triple[2],
                                                      strict_syntax_with_uri_corners=strict_syntax_with_uri_corners):
                            new_target_nodes.append(a_triple[2])
            depth -= 1
            list_of_current_target_nodes = new_target_nodes
            new_target_nodes = []
            if depth == 0 and classes_at_last_level:
                for a_node in list_of_current_target_nodes:
                    if a_node not in current_already_visited:
                        for a_triple in self.yield_class_triples_of_an_s(target_node=a_node,
                                                                         instantiation_property=instantiation_property):
                            yield a_triple

    def yield_classes_with_instances(self, instantiation_property=RDF_TYPE):
        """
        It yields every class URI that has at least a declared instance
        :param instantiation_property:
        :return:
        """
        raise NotImplementedError()



    def _is_an_unprefixed_iri(self, an_iri, strict_syntax_with_uri_corners=True):
        if strict_syntax_with_uri_corners:
            return an_iri[0] == "<" and an_iri[-1] == ">"
        else:
            return an_iri.startswith("http://")  # Getting kicked in the chicken nuggets is worse than this decision
