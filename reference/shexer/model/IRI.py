from shexer.model.const_elem_types import IRI_ELEM_TYPE


class IRI(object):

    def __init__(self, content):
        self._content = content

    def __str__(self):
        return self._content

    @property
    def elem_type(self):
        return IRI_ELEM_TYPE

    @property
    def iri(self):
        return self._content

    def __eq__(self, other):
        if type(other) != type(self):
            return False
        return str(self) == str(other)

    def __ne__(self, other):
        return not self.__eq__(other)