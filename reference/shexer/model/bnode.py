from shexer.model.const_elem_types import BNODE_ELEM_TYPE

class BNode(object):

    def __init__(self, identifier):
        self._identifier = identifier

    def __str__(self):
        return self._identifier

    def __eq__(self, other):
        if type(other) != type(self):
            return False
        return str(self) == str(other)

    @property
    def elem_type(self):
        return BNODE_ELEM_TYPE

    @property
    def iri(self):
        return self._identifier
