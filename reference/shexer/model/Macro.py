
from shexer.model.const_elem_types import *

_VALID_MACROS = [IRI_ELEM_TYPE, LITERAL_ELEM_TYPE, DOT_ELEM_TYPE, BNODE_ELEM_TYPE]

class Macro(object):
    def __init__(self, macro_const):
        if macro_const not in _VALID_MACROS:
            # print(_VALID_MACROS)
            # print(macro_const == DOT_ELEM_TYPE)
            raise ValueError("Not recognized macro: " + macro_const)
        self._macro_representation = macro_const

    def __str__(self):
        return self._macro_representation

    @property
    def elem_type(self):
        return self._macro_representation

    def __eq__(self, other):
        if type(other) != type(self):
            return False
        return str(other) == str(self)

    def __ne__(self, other):
        return not self.__neq__(other)