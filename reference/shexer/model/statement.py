POSITIVE_CLOSURE = "+"
KLEENE_CLOSURE = "*"
OPT_CARDINALITY = "?"

class Statement(object):

    def __init__(self, st_property, st_type, cardinality, n_occurences,
                 probability, comments=None, serializer_object=None, is_inverse=False):
        self._st_property = st_property
        self._st_type = st_type
        self._cardinality = cardinality
        self._n_occurences = n_occurences
        self._probability = probability
        self._serializer_object = serializer_object
        self._comments = [] if comments is None else comments
        self._is_inverse = is_inverse

    def get_tuples_to_serialize_line_indent_level(self, is_last_statement_of_shape, namespaces_dict):
        return self._serializer_object.\
            serialize_statement_with_indent_level(a_statement=self,
                                                  is_last_statement_of_shape= is_last_statement_of_shape,
                                                  namespaces_dict=namespaces_dict)

    def probability_representation(self):
        return self._serializer_object.probability_representation(self)

    def cardinality_representation(self):
        return self._serializer_object.cardinality_representation(self)

    def comment_representation(self, namespaces_dict):
        return self._serializer_object.turn_statement_into_comment(self, namespaces_dict=namespaces_dict)

    def add_comment(self, comment, insert_first=False):
        if not insert_first:
            self._comments.append(comment)
        else:
            self._comments.insert(0, comment)

    def remove_comments(self):
        self._comments = []


    @property
    def st_property(self):
        return self._st_property

    @property
    def st_type(self):
        return self._st_type

    @property
    def cardinality(self):
        return self._cardinality

    @cardinality.setter
    def cardinality(self, value):
        self._cardinality = value

    @property
    def probability(self):
        return self._probability

    @property
    def n_occurences(self):
        return self._n_occurences

    @probability.setter
    def probability(self, value):
        self._probability = value

    @property
    def comments(self):
        return self._comments

    @property
    def serializer_object(self):
        return self._serializer_object

    @serializer_object.setter
    def serializer_object(self, value):
        self._serializer_object = value

    @property
    def is_inverse(self):
        return self._is_inverse

    @is_inverse.setter
    def is_inverse(self, value):
        self._is_inverse = value
