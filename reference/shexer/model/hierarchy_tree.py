from shexer.model.const_elem_types import IRI_ELEM_TYPE, LITERAL_ELEM_TYPE, BNODE_ELEM_TYPE

class HTree(object):
    def __init__(self):
        self._root = None  # HNode
        self._node_index = {}

    def _subscribe_element(self, hcontent):
        str_value = hcontent.str_value
        if str_value not in self._node_index:
            self._node_index[str_value] = hcontent

    def create_node_literal(self, literal_obj):
        return HNode(hcontent=HLiteral(value=literal_obj),
                     htree=self)

    def create_node_IRI(self, iri_obj):
        return HNode(hcontent=HIri(value=iri_obj),
                     htree=self)

    def create_node_macro(self, macro_obj):
        return HNode(hcontent=HMacro(value=macro_obj),
                     htree=self)

    @property
    def root(self):
        return self._root

    @root.setter
    def root(self, value):
        self._root = value

    @property
    def iri_node(self):
        return None if not self.contains_element(IRI_ELEM_TYPE) else self.get_node_of_element(IRI_ELEM_TYPE)

    @property
    def literal_node(self):
        return None if not self.contains_element(LITERAL_ELEM_TYPE) else self.get_node_of_element(LITERAL_ELEM_TYPE)

    @property
    def bnode_node(self):
        return None if not self.contains_element(BNODE_ELEM_TYPE) else self.get_node_of_element(BNODE_ELEM_TYPE)

    def contains_element(self, str_type):
        return str_type in self._node_index

    def get_node_of_element(self, str_type):
        return self._node_index[str_type]  # We could get a key violation error here. I decide to risk that
        # assuming that whoever calls this has checked contains_element()



class HNode(object):
    def __init__(self, hcontent, htree, parents=None, children=None):
        self._hcontent = hcontent
        self._parents = parents if parents is not None else {}
        self._children = children if children is not None else {}
        htree._subscribe_element(self)  # Eeeasy python conventions! everything is under control

    def add_child(self, child):
        str_child = child.str_value
        if str_child not in self._children:
            self._children[str_child] = child
            child._parents[self.str_value] = self  # Lets assume consistence


    def add_parent(self, parent):
        str_parent = parent.str_value
        if str_parent not in self._parents:
            self._parents[str_parent] = parent
            parent._children[self.str_value] = self  # Lets assume consistence

    def has_parents(self):
        if self._parents:
            return True
        return False


    @property
    def value(self):
        return self._hcontent.value

    @property
    def str_value(self):
        return self._hcontent.str_value

    def __eq__(self, other):
        if not isinstance(other, HNode):
            return False
        return self._hcontent == other._hcontent

    def __ne__(self, other):
        return not self.__eq__(other)


class HContent(object):  # Abstract, dont instantiate
    def __init__(self, value):
        self._value = value

    @property
    def str_value(self):
        return str(self._value)

    @property
    def value(self):
        return self._value

    def __eq__(self, other):
        if not isinstance(other, HContent):
            return False
        if type(self._value) != type(other._value):
            return False
        return self.str_value == other.str_value

    def __ne__(self, other):
        return not self.__eq__(other)


class HLiteral(HContent):
    def __init__(self, value):  # Value should be a Literal
        super(HLiteral, self).__init__(value)

    def __str__(self):
        return str(self.value)


class HMacro(HContent):
    def __init__(self, value):
        super(HMacro, self).__init__(value)

    def __str__(self):
        return str(self.value)


class HIri(HContent):
    def __init__(self, value):
        super(HIri, self).__init__(value)

    def __str__(self):
        return str(self.value)
