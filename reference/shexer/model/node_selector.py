from shexer.consts import RDF_TYPE

class NodeSelector(object):

    def __init__(self, raw_selector, sgraph):
        self._raw_selector = raw_selector
        self._sgraph = sgraph

    @property
    def sgraph(self):
        return self._sgraph

    def get_target_nodes(self):
        """
        It return a list of target URIs. It may require to execute some query against a given endpoint

        :return:
        """
        raise NotImplementedError()

    def yield_graph_of_target_nodes(self, depth=1, classes_at_last_level=True, instantiation_property=RDF_TYPE ):
        for a_triple in self._sgraph.yield_p_o_triples_of_target_nodes(target_nodes=self.get_target_nodes(),
                                                                       depth=depth,
                                                                       classes_at_last_level=classes_at_last_level,
                                                                       instantiation_property=instantiation_property,
                                                                       already_visited=None):
            yield a_triple



    @property
    def raw_selector(self):
        return self._raw_selector


########################################################


class NodeSelectorNoSparql(NodeSelector):

    def __init__(self, raw_selector, sgraph, target_node):
        super().__init__(raw_selector=raw_selector, sgraph=sgraph)
        self._target_nodes = [target_node]

    def get_target_nodes(self):
        return self._target_nodes


########################################################



class NodeSelectorSparql(NodeSelector):

    def __init__(self, raw_selector, sgraph, sparql_query_selector, id_variable_query):
        super().__init__(raw_selector=raw_selector, sgraph=sgraph)
        self._sparql_query_selector = sparql_query_selector
        self._id_variable_query = id_variable_query
        self._target_nodes = None

    @property
    def sparql_query_selector(self):
        return self._sparql_query_selector

    def get_target_nodes(self):
        if self._target_nodes is None:
            self._target_nodes = self._solve_target_nodes_at_endpoint()
        return self._target_nodes



    def _solve_target_nodes_at_endpoint(self):
        return self._sgraph.query_single_variable(str_query=self._sparql_query_selector,
                                                  variable_id=self._id_variable_query)



