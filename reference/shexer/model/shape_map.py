

class ShapeMap(object):

    def __init__(self, shape_map_items=None):
        self._items = shape_map_items if shape_map_items is not None else []


    def add_item(self, shape_map_item):
        self._items.append(shape_map_item)


    def yield_items(self):
        for an_item in self._items:
            yield an_item

    def get_sgraph(self):
        if len(self._items) == 0:
            return None
        return self._items[0].node_selector.sgraph  # Assuming they all have the same sgraph


class ShapeMapItem(object):

    def __init__(self, node_selector, shape_label):
        self._node_selector = node_selector
        self._shape_label = shape_label

    @property
    def node_selector(self):
        return self._node_selector

    @property
    def shape_label(self):
        return self._shape_label