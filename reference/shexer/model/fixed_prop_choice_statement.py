from shexer.model.statement import Statement

class FixedPropChoiceStatement(Statement):

    def __init__(self, st_property, st_types, cardinality, n_occurences, probability, comments=None,
                 serializer_object=None, is_inverse=False):
        super(FixedPropChoiceStatement, self).__init__(st_property=st_property,
                                                       st_type=None,
                                                       cardinality=cardinality,
                                                       n_occurences=n_occurences,
                                                       probability=probability,
                                                       comments=comments,
                                                       serializer_object=serializer_object,
                                                       is_inverse=is_inverse)
        self._st_types = st_types

    @property
    def st_type(self):
        raise TypeError("Choice statements doesnt have a single type")

    @property
    def st_types(self):
        return self._st_types