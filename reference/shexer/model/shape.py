STARTING_CHAR_FOR_SHAPE_NAME = "%"


class Shape(object):

    def __init__(self, name, class_uri, statements, n_instances):
        self._name = name
        self._class_uri = class_uri
        self._statements = statements if statements is not None else []
        self._n_instances = n_instances
        # self._inverse_statements = inverse_statements if inverse_statements is not None else []
        self._sorting_callback = lambda x: x.probability
        self._n_direct_statements = self._count_direct_statements(statements)
        self._n_inverse_statements = len(statements) - self._n_direct_statements

    @property
    def name(self):
        return self._name

    @property
    def class_uri(self):
        return self._class_uri

    @property
    def n_statements(self):
        return len(self._statements)

    @property
    def n_direct_statements(self):
        return self._n_direct_statements

    @property
    def n_inverse_statements(self):
        return self._n_inverse_statements

    @property
    def n_instances(self):
        return self._n_instances

    # @property
    # def iri_pattern(self):
    #     return self._iri_pattern
    #
    # @iri_pattern.setter
    # def iri_pattern(self, value):
    #     self._iri_pattern = value

    @property
    def statements(self):
        return self._statements

    @property
    def direct_statements(self):
        return [a_statement for a_statement in self._statements if not a_statement.is_inverse]

    @property
    def inverse_statements(self):
        return [a_statement for a_statement in self._statements if a_statement.is_inverse]

    @statements.setter
    def statements(self, value):
        self._statements = value

    @direct_statements.setter
    def direct_statements(self, statements):
        self._statements = [a_statement for a_statement in self._statements if a_statement.is_inverse]
        for a_statement in statements:
            self._statements.append(a_statement)

    @inverse_statements.setter
    def inverse_statements(self, inverse_statements):
        self._statements = [a_statement for a_statement in self._statements if not a_statement.is_inverse]
        for a_statement in inverse_statements:
            self._statements.append(a_statement)

    def yield_direct_statements(self):
        for a_statement in self._statements:
            if not a_statement.is_inverse:
                yield a_statement

    def yield_inverse_statements(self):
        for a_statement in self._statements:
            if a_statement.is_inverse:
                yield a_statement

    def sort_statements(self, callback, reverse=False):
        self._statements.sort(key=lambda x: callback(x), reverse=reverse)


    def yield_statements(self, just_direct=False):
        if just_direct:
            for a_statement in self.yield_direct_statements():
                yield a_statement
        else:
            for a_statement in self._statements:
                yield a_statement

    @staticmethod
    def _count_direct_statements(statements):
        counter = 0
        for a_statement in statements:
            if not a_statement.is_inverse:
                counter += 1
        return counter

