
class Literal(object):

    def __init__(self, content, elem_type):
        self._content = content
        self._elem_type = elem_type

    def __str__(self):
        return self._content

    @property
    def elem_type(self):
        return self._elem_type



