from shexer.utils.target_elements import determine_original_target_nodes_if_needed
from shexer.model.property import Property
from shexer.utils.uri import remove_corners
from shexer.consts import SHAPES_DEFAULT_NAMESPACE, SHAPE_EXAMPLES, ALL_EXAMPLES
from shexer.core.profiling.consts import POS_CLASSES
from shexer.utils.log import log_msg
from shexer.utils.uri import longest_common_prefix
from shexer.core.profiling.strategy.direct_features_strategy import DirectFeaturesStrategy
from shexer.core.profiling.strategy.include_reverse_features_strategy import IncludeReverseFeaturesStrategy
from shexer.core.profiling.consts import RDF_TYPE_STR
from shexer.utils.structures.dicts import ShapeExampleFeaturesDict
from shexer.model.shape import STARTING_CHAR_FOR_SHAPE_NAME

_MINIMAL_IRI_INIT = STARTING_CHAR_FOR_SHAPE_NAME




class ClassProfiler(object):

    def __init__(self, triples_yielder, instances_dict, instantiation_property_str=RDF_TYPE_STR,
                 remove_empty_shapes=True, original_target_classes=None, original_shape_map=None,
                 shapes_namespace=SHAPES_DEFAULT_NAMESPACE, inverse_paths=False, detect_minimal_iri=False,
                 examples_mode=None):
        self._triples_yielder = triples_yielder
        self._instances_dict = instances_dict  # TODO  refactor: change name once working again
        # self._instances_shape_dict = {}
        self._shapes_namespace = shapes_namespace
        self._shape_names_dict = {}  # Will be filled during execution
        self._relevant_triples = 0
        self._instantiation_property_str = self._decide_instantiation_property(instantiation_property_str)
        self._remove_empty_shapes = remove_empty_shapes
        self._original_raw_target_classes = original_target_classes
        self._classes_shape_dict = {}  # Will be filled later
        self._class_counts = {}  # Will be filled later
        self._detect_minimal_iri = detect_minimal_iri
        self._examples_mode = examples_mode

        self._original_target_nodes = determine_original_target_nodes_if_needed(remove_empty_shapes=remove_empty_shapes,
                                                                                original_target_classes=original_target_classes,
                                                                                original_shape_map=original_shape_map,
                                                                                shapes_namespace=shapes_namespace)

        if detect_minimal_iri or examples_mode is not None:
            self._shape_feature_examples = ShapeExampleFeaturesDict(track_inverse_features=inverse_paths)
            # This last one will be filled later if detect_minimal_iri is True
        self._strategy = DirectFeaturesStrategy(class_profiler=self) if not inverse_paths \
            else IncludeReverseFeaturesStrategy(class_profiler=self)



    def profile_classes(self, verbose):
        log_msg(verbose=verbose,
                msg="Starting class profiler...")
        self._init_class_counts_and_shape_dict()
        log_msg(verbose=verbose,
                msg="Instance counts completed. Annotating instance features...")
        self._adapt_instances_dict()
        self._build_shape_of_instances()
        log_msg(verbose=verbose,
                msg="Instance features annotated. Number of relevant triples computed: {}. "
                    "Building shape profiles...".format(self._relevant_triples))

        self._build_class_profile()
        log_msg(verbose=verbose,
                msg="Draft shape profiles built. Cleaning shape profiles...")
        self._clean_class_profile()
        log_msg(verbose=verbose,
                msg="Shape profiles done. Working with {} shapes.".format(len(self._classes_shape_dict)))
        if self._detect_minimal_iri or self._examples_mode in [SHAPE_EXAMPLES, ALL_EXAMPLES]:
            log_msg(verbose=verbose,
                    msg="Detecting example features for each shape...")
            self._init_anotation_example_method()
            self._detect_example_features()
            log_msg(verbose=verbose,
                    msg="Mimimal IRIs detected...")
        return self._classes_shape_dict, self._class_counts, \
            self._shape_feature_examples if (self._detect_minimal_iri or self._examples_mode is not None) else None

    def get_target_classes_dict(self):
        return self._instances_dict

    def _detect_example_features(self):
        self._init_class_features_dict()
        self._annotate_example_features()


    def _init_class_features_dict(self):
        for a_class_key in self._class_counts:
            self._shape_feature_examples.set_shape_min_iri(shape_id=a_class_key,
                                                           min_iri=_MINIMAL_IRI_INIT)

    def _init_anotation_example_method(self):
        if self._detect_minimal_iri and self._examples_mode in [SHAPE_EXAMPLES, ALL_EXAMPLES]:
            self._annotate_example_features = self._annotate_shape_examples_and_min_iris
        elif self._detect_minimal_iri:
            self._annotate_example_features = self._annotate_min_iris
        else:  # not minimal IRIs, but if this was called, at this point, it means that we are looking for shape examples
            self._annotate_example_features = self._annotate_shape_examples
    def _annotate_example_features(self):
        raise NotImplementedError()

    def _annotate_min_iris(self):
        for an_instance_iri in self._instances_dict:
            for a_class_key in self._instances_dict[an_instance_iri][POS_CLASSES]:
                self._update_shape_min_iri(target_shape=a_class_key,
                                           instance_iri=an_instance_iri)
    def _annotate_shape_examples(self):
        for an_instance_iri in self._instances_dict:
            for a_class_key in self._instances_dict[an_instance_iri][POS_CLASSES]:
                if self._shape_feature_examples.shape_example(shape_id=a_class_key) is None:
                    self._shape_feature_examples.set_shape_example(shape_id=a_class_key,
                                                           example_iri=an_instance_iri)

    def _annotate_shape_examples_and_min_iris(self):
        for an_instance_iri in self._instances_dict:
            for a_class_key in self._instances_dict[an_instance_iri][POS_CLASSES]:
                self._update_shape_min_iri(target_shape=a_class_key,
                                           instance_iri=an_instance_iri)
                if self._shape_feature_examples.shape_example(shape_id=a_class_key) is None:
                    self._shape_feature_examples.set_shape_example(shape_id=a_class_key,
                                                           example_iri=an_instance_iri)


    def _update_shape_min_iri(self, target_shape, instance_iri):
        curr_iri = self._shape_feature_examples.shape_min_iri(shape_id=target_shape)
        if curr_iri == _MINIMAL_IRI_INIT:
            self._shape_feature_examples.set_shape_min_iri(shape_id=target_shape,
                                                           min_iri=instance_iri)
            return

        self._shape_feature_examples.set_shape_min_iri(shape_id=target_shape,
                                                       min_iri=longest_common_prefix(uri1=instance_iri,
                                                                                     uri2=curr_iri))

    @staticmethod
    def _decide_instantiation_property(instantiation_property_str):
        if instantiation_property_str == None:
            return RDF_TYPE_STR
        if type(instantiation_property_str) == Property:
            return str(instantiation_property_str)
        if type(instantiation_property_str) == str:
            return remove_corners(a_uri=instantiation_property_str,
                                  raise_error_if_no_corners=False)
        raise ValueError("Unrecognized param type to define instantiation property")


    def _init_class_counts_and_shape_dict(self):
        """
        IMPORTANT: this method should be called before adapting the instances_dict

        :return:
        """
        self._init_original_targets()
        self._init_annotated_targets()


    def _init_annotated_targets(self):
        self._strategy.init_annotated_targets()

    def _init_original_targets(self):
        self._strategy.init_original_targets()

    def _build_class_profile(self):
        for an_instance in self._instances_dict:
            self._strategy.annotate_instance_features(an_instance)

    def _clean_class_profile(self):
        if not self._remove_empty_shapes:
            return
        shapes_to_remove = self._detect_shapes_to_remove()

        while len(shapes_to_remove) != 0:
            self._iteration_remove_empty_shapes(shapes_to_remove)
            shapes_to_remove = self._detect_shapes_to_remove()

    def _detect_shapes_to_remove(self):
        shapes_to_remove = set()
        for a_shape_key in self._classes_shape_dict:
            if not self._is_original_target_shape(a_shape_key):
                if not self._has_it_annotated_features(a_shape_key):
                    shapes_to_remove.add(a_shape_key)
        return shapes_to_remove

    def _is_original_target_shape(self, shape_label):
        return shape_label in self._original_target_nodes

    def _has_it_annotated_features(self, shape_label):
        return self._strategy.has_shape_annotated_features(shape_label)

    def _iteration_remove_empty_shapes(self, target_shapes):
        for a_shape_label_key in self._classes_shape_dict:
            for a_features_dict in self._strategy.features_dicts_of_shape(a_shape_label_key):
                for a_prop_key in a_features_dict:
                    for a_shape_to_remove in target_shapes:
                        if a_shape_to_remove in a_features_dict[a_prop_key]:
                            del a_features_dict[a_prop_key][a_shape_to_remove]
        for a_shape_to_remove in target_shapes:
            if a_shape_to_remove in self._classes_shape_dict:
                del self._classes_shape_dict[a_shape_to_remove]

    def _build_shape_of_instances(self):
        for a_triple in self._yield_relevant_triples():
            self._relevant_triples += 1
            self._annotate_feature_of_target_instance(a_triple)

    def _annotate_feature_of_target_instance(self, a_triple):
        self._strategy.annotate_triple_features(a_triple)

    def _adapt_instances_dict(self):
        self._strategy.adapt_instances_dict()

    def _adapt_entry_dict_if_needed(self, str_subj):
        if type(self._instances_dict[str_subj]) == list:
            self._instances_dict[str_subj] = (self._instances_dict[str_subj], {})

    def _yield_relevant_triples(self):
        for a_triple in self._triples_yielder.yield_triples():
            if self._strategy.is_a_relevant_triple(a_triple):
                yield a_triple

    # def _set_anotation_instance_methods(self):
    #     # MIN IRIS
    #     if self._detect_minimal_iri:
    #         self._update_shape_min_iri = self._update_shape_min_iri_active
    #     else:
    #         self._update_shape_min_iri = self._update_shape_min_iri_inactive
    #
    #     # EXAMPLE FEATURES
    #     if self._examples_mode is None:
    #         self._update_shape_examples = self._update_shape_examples_inactive
    #     elif self._examples_mode == SHAPE_EXAMPLES:
    #         self._update_shape_examples = self._update_shape_examples_only_shapes
    #     elif self._examples_mode == CONSTRAINT_EXAMPLES:
    #         self._update_shape_examples = self._update_shape_examples_only_constraints
    #     elif self._examples_mode == ALL_EXAMPLES:
    #         self._update_shape_examples = self._update_shape_examples_shapes_and_constraints
    #     else:
    #         raise ValueError("Unrecognized mode for getting shape examples. Choose one between the values offered in shexer.const, section # EXAMPLES")


    #
    # def _update_shape_examples_only_constraints(self, instance_id, shape_id):
    #     self._strategy.look_for_example_features(instance_id=instance_id,
    #                                              shape_id=shape_id)
    #
    # def _update_shape_examples_shapes_and_constraints(self, instance_id, shape_id):
    #     self._update_shape_examples_only_shapes(instance_id, shape_id)
    #     self._update_shape_examples_only_constraints(instance_id, shape_id)
    #
    # def _update_shape_examples(self, instance_id, shape_id):
    #     raise NotImplementedError()
    #
    # def _update_shape_examples_inactive(self, instance_id, shape_id):
    #     pass  # This is OK, do nothing
    #




