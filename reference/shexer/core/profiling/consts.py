_S = 0
_P = 1
_O = 2

POS_CLASSES = 0
POS_FEATURES_DIRECT = 1
POS_FEATURES_INVERSE = 2

_ONE_TO_MANY = "+"

RDF_TYPE_STR = "http://www.w3.org/1999/02/22-rdf-syntax-ns#type"