from shexer.core.profiling.strategy.abstract_feature_direction_strategy import AbstractFeatureDirectionStrategy
from shexer.core.profiling.consts import _S, _P, _O, POS_FEATURES_INVERSE, POS_CLASSES
from shexer.model.IRI import IRI_ELEM_TYPE

_C_MAP_POS_DIRECT = 0
_C_MAP_POS_INVERSE = 1


class IncludeReverseFeaturesStrategy(AbstractFeatureDirectionStrategy):



    def __init__(self, class_profiler):
        super().__init__(class_profiler)
        self._set_annotation_methods()


    def adapt_instances_dict(self):
        for a_subj_key in self._i_dict:
            self._i_dict[a_subj_key] = (self._i_dict[a_subj_key], {}, {})


    def is_a_relevant_triple(self, a_triple):
        target_elems = (a_triple[_S], a_triple[_O])
        for elem in target_elems:
            if self._is_relevant_instance(elem):
                return True
        return False


    def annotate_triple_features(self, a_triple):
        raise NotImplementedError()


    def init_annotated_targets(self):
        for an_instance, class_list in self._i_dict.items():
            for a_class in class_list:
                if a_class not in self._c_shapes_dict:
                    self._c_shapes_dict[a_class] = ({}, {})
                    self._c_counts[a_class] = 0
                self._c_counts[a_class] += 1

    def init_original_targets(self):
        if self._original_raw_target_classes:
            for a_class in self._original_raw_target_classes:
                self._c_shapes_dict[a_class] = ({}, {})
                self._c_counts[a_class] = 0

    def annotate_instance_features(self, an_instance):
        self._annotate_2d_direct_instance_features(an_instance)
        self._annotate_2d_inverse_instance_features(an_instance)

    def has_shape_annotated_features(self, shape_label):
        if shape_label not in self._c_shapes_dict:
            return False
        return len(self._c_shapes_dict[shape_label][_C_MAP_POS_DIRECT]) > 0 or \
               len(self._c_shapes_dict[shape_label][_C_MAP_POS_INVERSE]) > 0

    def features_dicts_of_shape(self, shape_label):
        return [self._c_shapes_dict[shape_label][_C_MAP_POS_DIRECT],
                self._c_shapes_dict[shape_label][_C_MAP_POS_INVERSE]]

    def _annotate_2d_direct_instance_features(self, an_instance):
        direct_feautres_3tuple = self._infer_direct_3tuple_features(an_instance)
        for a_class in self._i_dict[an_instance][POS_CLASSES]:
            self._annotate_2d_direct_instance_features_for_class(a_class, direct_feautres_3tuple)

    def _annotate_2d_inverse_instance_features(self, an_instance):
        inverse_feautres_3tuple = self._infer_inverse_3tuple_features(an_instance)
        for a_class in self._i_dict[an_instance][POS_CLASSES]:
            self._annotate_2d_inverse_instance_features_for_class(a_class, inverse_feautres_3tuple)

    def _infer_inverse_3tuple_features(self, an_instance):
        result = []
        for a_prop in self._i_dict[an_instance][POS_FEATURES_INVERSE]:
            for a_type in self._i_dict[an_instance][POS_FEATURES_INVERSE][a_prop]:
                for a_valid_cardinality in self._infer_valid_cardinalities(a_prop,
                                                                           self._i_dict[an_instance][POS_FEATURES_INVERSE][a_prop][a_type]):
                    result.append( (a_prop, a_type, a_valid_cardinality) )
        return result

    def _annotate_2d_direct_instance_features_for_class(self, a_class, features_3tuple):
        for a_feature_3tuple in features_3tuple:
            self._introduce_needed_direct_elements_in_2d_shape_classes_dict(a_class, a_feature_3tuple)
            # 3tuple: 0->str_prop, 1->str_type, 2->cardinality
            self._c_shapes_dict[a_class][_C_MAP_POS_DIRECT][a_feature_3tuple[0]][a_feature_3tuple[1]][a_feature_3tuple[2]] += 1

    def _annotate_2d_inverse_instance_features_for_class(self, a_class, features_3tuple):
        for a_feature_3tuple in features_3tuple:
            self._introduce_needed_inverse_elements_in_2d_shape_classes_dict(a_class, a_feature_3tuple)
            # 3tuple: 0->str_prop, 1->str_type, 2->cardinality
            self._c_shapes_dict[a_class][_C_MAP_POS_INVERSE][a_feature_3tuple[0]][a_feature_3tuple[1]][a_feature_3tuple[2]] += 1

    def _introduce_needed_direct_elements_in_2d_shape_classes_dict(self, a_class, a_feature_3tuple):
        str_prop = a_feature_3tuple[0]
        str_type = a_feature_3tuple[1]
        cardinality = a_feature_3tuple[2]
        if str_prop not in self._c_shapes_dict[a_class][_C_MAP_POS_DIRECT]:
            self._c_shapes_dict[a_class][_C_MAP_POS_DIRECT][str_prop] = {}
        if str_type not in self._c_shapes_dict[a_class][_C_MAP_POS_DIRECT][str_prop]:
            self._c_shapes_dict[a_class][_C_MAP_POS_DIRECT][str_prop][str_type] = {}
        if cardinality not in self._c_shapes_dict[a_class][_C_MAP_POS_DIRECT][str_prop][str_type]:
            self._c_shapes_dict[a_class][_C_MAP_POS_DIRECT][str_prop][str_type][cardinality] = 0

    def _introduce_needed_inverse_elements_in_2d_shape_classes_dict(self, a_class, a_feature_3tuple):
        str_prop = a_feature_3tuple[0]
        str_type = a_feature_3tuple[1]
        cardinality = a_feature_3tuple[2]
        if str_prop not in self._c_shapes_dict[a_class][_C_MAP_POS_INVERSE]:
            self._c_shapes_dict[a_class][_C_MAP_POS_INVERSE][str_prop] = {}
        if str_type not in self._c_shapes_dict[a_class][_C_MAP_POS_INVERSE][str_prop]:
            self._c_shapes_dict[a_class][_C_MAP_POS_INVERSE][str_prop][str_type] = {}
        if cardinality not in self._c_shapes_dict[a_class][_C_MAP_POS_INVERSE][str_prop][str_type]:
            self._c_shapes_dict[a_class][_C_MAP_POS_INVERSE][str_prop][str_type][cardinality] = 0


    def _annotate_target_object(self, a_triple):  # TODO: refactor here, place this in superclass and parametrize positions
        str_obj = a_triple[_O].iri
        str_prop = a_triple[_P].iri
        type_subj = self._decide_type_elem(a_triple[_S], str_prop)

        subj_shapes = [] if type_subj != IRI_ELEM_TYPE else self._decide_shapes_elem(a_triple[_S].iri)

        self._introduce_needed_elements_in_shape_instances_dict_for_obj(str_obj=str_obj,
                                                                        str_prop=str_prop,
                                                                        type_subj=type_subj,
                                                                        subj_shapes=subj_shapes)
        self._i_dict[str_obj][POS_FEATURES_INVERSE][str_prop][type_subj] += 1
        for a_shape in subj_shapes:
            self._i_dict[str_obj][POS_FEATURES_INVERSE][str_prop][a_shape] += 1

    def _introduce_needed_elements_in_shape_instances_dict_for_obj(self, str_obj, str_prop, type_subj, subj_shapes):
        if str_prop not in self._i_dict[str_obj][POS_FEATURES_INVERSE]:
            self._i_dict[str_obj][POS_FEATURES_INVERSE][str_prop] = {}
        if type_subj not in self._i_dict[str_obj][POS_FEATURES_INVERSE][str_prop]:
            self._i_dict[str_obj][POS_FEATURES_INVERSE][str_prop][type_subj] = 0
        for a_shape in subj_shapes:
            if a_shape not in self._i_dict[str_obj][POS_FEATURES_INVERSE][str_prop]:
                self._i_dict[str_obj][POS_FEATURES_INVERSE][str_prop][a_shape] = 0

    def _set_annotation_methods(self):
        if not self._examples_mode:
            self.annotate_triple_features = self._annotate_triple_features_no_examples
        else:
            self.annotate_triple_features = self._annotate_triple_features_with_examples

    def _annotate_triple_features_with_examples(self, a_triple):
        if self._is_relevant_instance(a_triple[_S]):
            self._annotate_target_subject(a_triple)
            self._annotate_example_subject_inverse_paths(a_triple)
        if self._is_relevant_instance(a_triple[_O]):
            self._annotate_target_object(a_triple)
            self._annotate_example_object_inverse_paths(a_triple)

    def _annotate_triple_features_no_examples(self, a_triple):
        if self._is_relevant_instance(a_triple[_S]):
            self._annotate_target_subject(a_triple)
        if self._is_relevant_instance(a_triple[_O]):
            self._annotate_target_object(a_triple)

    def _annotate_example_subject_inverse_paths(self, a_triple):
        for a_class_key in self._i_dict[str(a_triple[_S])][POS_CLASSES]:
            if not self._shape_feature_examples.has_constraint_example(shape_id=a_class_key,
                                                                       prop_id=str(a_triple[_P]),
                                                                       inverse=False):
                self._shape_feature_examples.set_constraint_example(shape_id=a_class_key,
                                                                    prop_id=str(a_triple[_P]),
                                                                    example=str(a_triple[_O]),
                                                                    inverse=False)

    def _annotate_example_object_inverse_paths(self, a_triple):
        for a_class_key in self._i_dict[str(a_triple[_O])][POS_CLASSES]:
            if not self._shape_feature_examples.has_constraint_example(shape_id=a_class_key,
                                                                       prop_id=str(a_triple[_P]),
                                                                       inverse=True):
                self._shape_feature_examples.set_constraint_example(shape_id=a_class_key,
                                                                    prop_id=str(a_triple[_P]),
                                                                    example=str(a_triple[_S]),
                                                                    inverse=True)


