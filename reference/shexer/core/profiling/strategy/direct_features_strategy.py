
from shexer.core.profiling.strategy.abstract_feature_direction_strategy import AbstractFeatureDirectionStrategy
from shexer.core.profiling.consts import _S, _P, _O, POS_CLASSES



class DirectFeaturesStrategy(AbstractFeatureDirectionStrategy):

    def __init__(self, class_profiler):
        super().__init__(class_profiler)
        self._set_annotation_methods()


    def adapt_instances_dict(self):
        for a_subj_key in self._i_dict:
            self._i_dict[a_subj_key] = \
                (self._i_dict[a_subj_key], {})

    def is_a_relevant_triple(self, a_triple):
        return self._is_relevant_instance(a_triple[_S])

    def _annotate_triple_features(self, a_triple):
        raise NotImplementedError()


    def annotate_instance_features(self, an_instance):
        self._annotate_direct_instance_features(an_instance)


    def init_annotated_targets(self):
        self._init_annotated_direct_features()

    def init_original_targets(self):
        if self._original_raw_target_classes:
            for a_class in self._original_raw_target_classes:
                self._c_shapes_dict[a_class] = {}
                self._c_counts[a_class] = 0

    def has_shape_annotated_features(self, shape_label):
        if shape_label not in self._c_shapes_dict:
            return False
        return len(self._c_shapes_dict[shape_label]) > 0

    def features_dicts_of_shape(self, shape_label):
        return [self._c_shapes_dict[shape_label]]

    def _set_annotation_methods(self):
        if self._examples_mode is None:
            self.annotate_triple_features = self._annotate_triple_features_no_examples
        else:
            self.annotate_triple_features = self._annotate_triple_features_with_examples


    def _annotate_triple_features_with_examples(self, a_triple):
        self._annotate_target_subject(a_triple)
        self._annotate_example_no_inverse(a_triple=a_triple)

    def _annotate_triple_features_no_examples(self, a_triple):
        self._annotate_target_subject(a_triple)

    def _annotate_example_no_inverse(self, a_triple):
        for a_class_key in self._i_dict[str(a_triple[_S])][POS_CLASSES]:
            if not self._shape_feature_examples.has_constraint_example(shape_id=a_class_key,
                                                                       prop_id=str(a_triple[_P])):
                self._shape_feature_examples.set_constraint_example(shape_id=a_class_key,
                                                                    prop_id=str(a_triple[_P]),
                                                                    example=str(a_triple[_O]))





