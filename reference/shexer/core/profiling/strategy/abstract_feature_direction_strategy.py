from shexer.utils.shapes import build_shapes_name_for_class_uri
from shexer.core.profiling.consts import POS_CLASSES, _S, _P, _O, POS_FEATURES_DIRECT, _ONE_TO_MANY, POS_FEATURES_INVERSE
from shexer.model.IRI import IRI_ELEM_TYPE, IRI
from shexer.model.bnode import BNode, BNODE_ELEM_TYPE
from shexer.model.Literal import Literal

class AbstractFeatureDirectionStrategy(object):

    def __init__(self, class_profiler):
        self._class_profiler = class_profiler
        self._i_dict = self._class_profiler._instances_dict
        self._c_shapes_dict = self._class_profiler._classes_shape_dict
        self._c_counts = self._class_profiler._class_counts
        self._shape_names_dict = self._class_profiler._shape_names_dict
        self._original_raw_target_classes = self._class_profiler._original_raw_target_classes
        self._detect_minimal_iri = self._class_profiler._detect_minimal_iri
        self._examples_mode = self._class_profiler._examples_mode
        if self._detect_minimal_iri or self._examples_mode is not None:
            self._shape_feature_examples = self._class_profiler._shape_feature_examples

    def adapt_instances_dict(self):
        raise NotImplementedError()

    def is_a_relevant_triple(self, a_triple):
        raise NotImplementedError()

    def annotate_triple_features(self, a_triple):
        raise NotImplementedError()

    def annotate_instance_features(self, an_instance):
        raise NotImplementedError()

    def init_original_targets(self):
        raise NotImplementedError()

    def init_annotated_targets(self):
        raise NotImplementedError()

    def has_shape_annotated_features(self, shape_label):
        raise NotImplementedError()

    def features_dicts_of_shape(self, shape_label):
        raise NotImplementedError()
    #
    # def look_for_example_features(self, instance_id, shape_id):
    #     raise NotImplementedError()

    def _init_annotated_direct_features(self):
        for an_instance, class_list in self._i_dict.items():
            for a_class in class_list:
                if a_class not in self._c_shapes_dict:
                    self._c_shapes_dict[a_class] = {}
                    self._c_counts[a_class] = 0
                self._c_counts[a_class] += 1

    def _annotate_direct_instance_features(self, an_instance):
        direct_feautres_3tuple = self._infer_direct_3tuple_features(an_instance)

        for a_class in self._i_dict[an_instance][POS_CLASSES]:
            self._annotate_direct_instance_features_for_class(a_class, direct_feautres_3tuple)

    def _infer_direct_3tuple_features(self, an_instance):
        result = []
        for a_prop in self._i_dict[an_instance][POS_FEATURES_DIRECT]:
            for a_type in self._i_dict[an_instance][POS_FEATURES_DIRECT][a_prop]:
                for a_valid_cardinality in self._infer_valid_cardinalities(a_prop,
                                                                           self._i_dict[an_instance][POS_FEATURES_DIRECT][a_prop][a_type]):
                    result.append( (a_prop, a_type, a_valid_cardinality) )
        return result


    def _infer_valid_cardinalities(self, a_property, a_cardinality):
        """
        Special teratment for self._instantiation_property_str. If thats the property, we are targetting specific URIs
        instead of the type IRI.
        Cardinality will be always "1"
        :param a_property:
        :param a_cardinality:
        :return:
        """
        if a_property == self._class_profiler._instantiation_property_str:
            yield 1
        else:
            yield a_cardinality
            yield _ONE_TO_MANY

    def _annotate_direct_instance_features_for_class(self, a_class, features_3tuple):
        for a_feature_3tuple in features_3tuple:
            self._introduce_needed_elements_in_shape_classes_dict(a_class, a_feature_3tuple)
            # 3tuple: 0->str_prop, 1->str_type, 2->cardinality
            self._c_shapes_dict[a_class][a_feature_3tuple[0]][a_feature_3tuple[1]][a_feature_3tuple[2]] += 1

    def _introduce_needed_elements_in_shape_classes_dict(self, a_class, a_feature_3tuple):
        str_prop = a_feature_3tuple[0]
        str_type = a_feature_3tuple[1]
        cardinality = a_feature_3tuple[2]
        if str_prop not in self._c_shapes_dict[a_class]:
            self._c_shapes_dict[a_class][str_prop] = {}
        if str_type not in self._c_shapes_dict[a_class][str_prop]:
            self._c_shapes_dict[a_class][str_prop][str_type] = {}
        if cardinality not in self._c_shapes_dict[a_class][str_prop][str_type]:
            self._c_shapes_dict[a_class][str_prop][str_type][cardinality] = 0

    def _is_relevant_instance(self, an_instance):
        return (isinstance(an_instance, IRI) or isinstance(an_instance, BNode)) and an_instance.iri in self._i_dict

    def _decide_type_elem(self, original_elem, str_prop):
        """
        Special treatment for self._instantiation_property_str property. We look for ValueSets instead of types when this property appears.

        :param original_elem:
        :param str_prop:
        :return:
        """
        if str_prop != self._class_profiler._instantiation_property_str or isinstance(original_elem, Literal):
            return original_elem.elem_type
        return original_elem.iri

    def _decide_shapes_elem(self, str_elem):
        if str_elem not in self._i_dict:
            return []
        return [self._get_shape_name_for_a_class(a_class)
                for a_class in self._i_dict[str_elem][POS_CLASSES]]

    def _get_shape_name_for_a_class(self, a_class):
        self._assign_shape_name_if_needed(a_class)
        return self._shape_names_dict[a_class]

    def _assign_shape_name_if_needed(self, a_class):
        if a_class in self._shape_names_dict:
            return
        self._shape_names_dict[a_class] = \
            build_shapes_name_for_class_uri(class_uri=a_class,
                                            shapes_namespace=self._class_profiler._shapes_namespace)

    def _annotate_target_subject(self, a_triple):
        str_subj = a_triple[_S].iri
        str_prop = a_triple[_P].iri
        type_obj = self._decide_type_elem(a_triple[_O], str_prop)

        obj_shapes = [] if type_obj not in [IRI_ELEM_TYPE, BNODE_ELEM_TYPE] else self._decide_shapes_elem(a_triple[_O].iri)

        self._introduce_needed_elements_in_shape_instances_dict_for_subj(str_subj=str_subj,
                                                                         str_prop=str_prop,
                                                                         type_obj=type_obj,
                                                                         obj_shapes=obj_shapes)
        self._i_dict[str_subj][POS_FEATURES_DIRECT][str_prop][type_obj] += 1
        for a_shape in obj_shapes:
            self._i_dict[str_subj][POS_FEATURES_DIRECT][str_prop][a_shape] += 1


    def _introduce_needed_elements_in_shape_instances_dict_for_subj(self, str_subj, str_prop, type_obj, obj_shapes):
        if str_prop not in self._i_dict[str_subj][POS_FEATURES_DIRECT]:
            self._i_dict[str_subj][POS_FEATURES_DIRECT][str_prop] = {}
        if type_obj not in self._i_dict[str_subj][POS_FEATURES_DIRECT][str_prop]:
            self._i_dict[str_subj][POS_FEATURES_DIRECT][str_prop][type_obj] = 0
        for a_shape in obj_shapes:
            if a_shape not in self._i_dict[str_subj][POS_FEATURES_DIRECT][str_prop]:
                self._i_dict[str_subj][POS_FEATURES_DIRECT][str_prop][a_shape] = 0