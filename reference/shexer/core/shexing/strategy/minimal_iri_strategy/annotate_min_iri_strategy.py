from shexer.core.shexing.strategy.minimal_iri_strategy.abstract_min_iri_strategy import AbstractMinIriStrategy
import re

_SEP_CHARS = re.compile("[:/#]")


class AnnotateMinIriStrategy(AbstractMinIriStrategy):

    def __init__(self, min_iris_dict):
        self._min_iris_dict = min_iris_dict

    def annotate_shape_iri(self, shape):
        self._min_iris_dict.set_shape_min_iri(shape_id=shape.class_uri,
                                              min_iri=self._determine_suitable_iri_pattern
                                                  (
                                                  self._min_iris_dict.shape_min_iri
                                                      (
                                                      shape.class_uri
                                                      )
                                                  )
                                              )
        # shape.iri_pattern = self._determine_suitable_iri_pattern(self._min_iris_dict.shape_min_iri(shape.class_uri))
        # shape.iri_pattern = self._determine_suitable_iri_pattern(self._min_iris_dict[shape.class_uri])

    def _determine_suitable_iri_pattern(self, longest_common_prefix):
        backwards_str = longest_common_prefix[::-1]
        last_sep_char = _SEP_CHARS.search(backwards_str)
        if last_sep_char is None:
            return None
        candidate_min_iri = backwards_str[last_sep_char.start():][::-1]
        if len(candidate_min_iri) < 3:  # Just too short. Kind of an arbitrary number
            return None
        if candidate_min_iri.startswith("http") and len(candidate_min_iri) < 9:  # http:// or https:// + an extra char
            return None
        return candidate_min_iri  # Let's say it is a worthy one
