class AbstractMinIriStrategy(object):

    def annotate_shape_iri(self, shape):
        raise NotImplementedError()