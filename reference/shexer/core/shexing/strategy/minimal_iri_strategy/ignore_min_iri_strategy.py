from shexer.core.shexing.strategy.minimal_iri_strategy.abstract_min_iri_strategy import AbstractMinIriStrategy


class IgnoreMinIriStrategy(AbstractMinIriStrategy):

    def __init__(self):
        pass

    def annotate_shape_iri(self, shape):
        """
        Just skip this, no need to do anything

        :param shape:
        :param class_key:
        :return:
        """
        pass
