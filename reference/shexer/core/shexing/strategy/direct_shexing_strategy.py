from shexer.core.shexing.strategy.abstract_shexing_strategy import AbstractShexingStrategy
from shexer.utils.shapes import build_shapes_name_for_class_uri
from shexer.model.statement import Statement
from shexer.model.shape import Shape

class DirectShexingStrategy(AbstractShexingStrategy):

    def __init__(self, class_shexer):
        super().__init__(class_shexer)
        self._class_profile_dict = self._class_shexer._class_profile_dict
        self._shapes_namespace = self._class_shexer._shapes_namespace
        self._class_counts_dict = self._class_shexer._class_counts_dict

    def remove_statements_to_gone_shapes(self, shape, shape_names_to_remove):
        shape.direct_statements = self._statements_without_shapes_to_remove(original_statements=shape.direct_statements,
                                                                            shape_names_to_remove=shape_names_to_remove)

    def set_valid_shape_constraints(self, shape):
        valid_statements = self._select_valid_statements_of_shape(shape.direct_statements)
        self._tune_list_of_valid_statements(valid_statements=valid_statements)
        shape.statements = valid_statements


    def _yield_base_shapes_direction_aware(self, acceptance_threshold):
        for a_class_key in self._class_profile_dict:
            name = build_shapes_name_for_class_uri(class_uri=a_class_key,
                                                   shapes_namespace=self._shapes_namespace)
            number_of_instances = float(self._class_counts_dict[a_class_key])
            statements = []
            for a_prop_key in self._class_profile_dict[a_class_key]:
                for a_type_key in self._class_profile_dict[a_class_key][a_prop_key]:
                    for a_cardinality in self._class_profile_dict[a_class_key][a_prop_key][a_type_key]:
                        n_occurences = self._class_profile_dict[a_class_key][a_prop_key][a_type_key][a_cardinality]
                        frequency = self._compute_frequency(number_of_instances,
                                                            n_occurences)
                        if frequency >= acceptance_threshold:
                            statements.append(Statement(st_property=a_prop_key,
                                                        st_type=a_type_key,
                                                        cardinality=a_cardinality,
                                                        probability=frequency,
                                                        n_occurences=n_occurences))

            yield Shape(name=name,
                        class_uri=a_class_key,
                        statements=statements,
                        n_instances=int(number_of_instances))

