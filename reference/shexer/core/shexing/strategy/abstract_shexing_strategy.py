from shexer.model.statement import POSITIVE_CLOSURE, KLEENE_CLOSURE, OPT_CARDINALITY
from shexer.model.const_elem_types import NONLITERAL_ELEM_TYPE, BNODE_ELEM_TYPE, IRI_ELEM_TYPE
from shexer.model.fixed_prop_choice_statement import FixedPropChoiceStatement
from shexer.model.statement import Statement
from shexer.io.shex.formater.statement_serializers.st_serializers_factory import StSerializerFactory
from shexer.core.shexing.strategy.minimal_iri_strategy.annotate_min_iri_strategy import AnnotateMinIriStrategy
from shexer.core.shexing.strategy.minimal_iri_strategy.ignore_min_iri_strategy import IgnoreMinIriStrategy
from shexer.model.shape import STARTING_CHAR_FOR_SHAPE_NAME


_DIRECT_ST_SERIALIZER = 0
_INVERSE_ST_SERIALIZER = 1


class AbstractShexingStrategy(object):

    def __init__(self, class_shexer):
        self._class_shexer = class_shexer
        self._namespaces_dict = class_shexer._namespaces_dict
        self._allow_opt_cardinality = class_shexer._allow_opt_cardinality
        self._disable_comments = self._class_shexer._disable_comments
        self._instantiation_property_str = self._class_shexer._instantiation_property_str
        self._keep_less_specific = self._class_shexer._keep_less_specific
        self._discard_useless_positive_closures = self._class_shexer._discard_useless_positive_closures
        self._tolerance = self._class_shexer._tolerance
        self._disable_or_statements = self._class_shexer._disable_or_statements
        self._all_compliant_mode = self._class_shexer._all_compliant_mode
        self._disable_exact_cardinality = self._class_shexer._disable_exact_cardinality
        self._allow_redundant_or = self._class_shexer._allow_redundant_or

        self._strategy_min_iri = AnnotateMinIriStrategy(class_shexer._class_min_iris_dict) \
            if class_shexer._detect_minimal_iri \
            else IgnoreMinIriStrategy()

        self._statement_serializer_factory = StSerializerFactory(freq_mode=class_shexer._instances_report_mode,
                                                                 decimals=class_shexer._decimals,
                                                                 instantiation_property_str=self._instantiation_property_str,
                                                                 disable_comments=self._disable_comments)


    def yield_base_shapes(self, acceptance_threshold):
        for a_shape in self._yield_base_shapes_direction_aware(acceptance_threshold=acceptance_threshold):
            self._strategy_min_iri.annotate_shape_iri(a_shape)
            yield a_shape

    def _yield_base_shapes_direction_aware(self, acceptance_threshold):
        raise NotImplementedError()

    def set_valid_shape_constraints(self, shape):
        raise NotImplementedError()

    def remove_statements_to_gone_shapes(self, shape, shape_names_to_remove):
        raise NotImplementedError()

    def _tune_list_of_valid_statements(self, valid_statements):
        """
        This method modifies the statements objects received --> no return needed
        :param valid_statements:
        :return:
        """
        if not len(valid_statements) == 0:
            valid_statements.sort(reverse=True, key=lambda x: x.probability)  # Restoring order completely
                                                                              # before changing cardinalities

            if self._all_compliant_mode:
                self._modify_cardinalities_of_statements_non_compliant_with_all_instances(valid_statements)

            if self._disable_exact_cardinality:
                self._generalize_exact_cardinalities(valid_statements)

            if self._disable_comments:
                self._remove_comments_from_statements(valid_statements)

    def _select_valid_statements_of_shape(self, original_statements):
        if len(original_statements) == 0:
            return []

        for a_statement in original_statements:  # TODO Refactor!!! This is not the place to set the serializer
            self._set_serializer_object_for_statements(a_statement)

        result = self._group_constraints_with_same_prop_and_obj(original_statements)
        result = self._group_node_constraints(result)

        return result

    def _compute_frequency(self, number_of_instances, n_ocurrences_statement):
        return float(n_ocurrences_statement) / number_of_instances

    def _modify_cardinalities_of_statements_non_compliant_with_all_instances(self, statements):
        for a_statement in statements:
            if a_statement.probability != 1:
                self._change_statement_cardinality_to_all_compliant(a_statement)

    def _change_statement_cardinality_to_all_compliant(self, statement):
        comment_for_current_sentence = self._turn_statement_into_comment(statement, self._namespaces_dict)
        statement.add_comment(comment=comment_for_current_sentence,
                              insert_first=True)
        statement.cardinality = OPT_CARDINALITY if \
            self._allow_opt_cardinality and statement.cardinality == 1 \
            else KLEENE_CLOSURE
        statement.probability = 1


    @staticmethod
    def _turn_statement_into_comment(a_statement, namespaces_dict):
        return a_statement.comment_representation(namespaces_dict=namespaces_dict)

    def _generalize_exact_cardinalities(self, statements):
        for a_statement in statements:
            if type(a_statement.cardinality) == int and a_statement.cardinality > 1:
                a_statement.cardinality = POSITIVE_CLOSURE

    def _remove_comments_from_statements(self, valid_statements):
        for a_statement in valid_statements:
            a_statement.remove_comments()

    def _set_serializer_object_for_statements(self, statement):
        statement.serializer_object = self._statement_serializer_factory.get_base_serializer(
            is_inverse=statement.is_inverse
        )

    def _group_constraints_with_same_prop_and_obj(self, candidate_statements):  # TODO REFACTORING
        result = []
        already_visited = set()
        for i in range(0, len(candidate_statements)):
            a_statement = candidate_statements[i]
            if a_statement not in already_visited:
                already_visited.add(a_statement)
                group_to_decide = MergeableConstraints(a_statement)  # TODO
                for j in range(i + 1, len(candidate_statements)):
                    if self._statements_have_same_tokens(a_statement,
                                                         candidate_statements[j]):
                        group_to_decide.add_constraint(candidate_statements[j])
                        already_visited.add(candidate_statements[j])
                if len(group_to_decide) == 1:
                    result.append(a_statement)
                else:
                    result.append(self._decide_best_statement_with_cardinalities_in_comments(group_to_decide))
        return result

    def _statements_have_same_tokens(self, st1, st2):
        if st1.st_property == st2.st_property and st1.st_type == st2.st_type:
            return True
        return False

    def _decide_best_statement_with_cardinalities_in_comments(self, mergeable_constraints):  # TODO REFACTORING
        if self._discard_useless_positive_closures:
            if self._is_a_group_of_statements_with_useless_positive_closure(mergeable_constraints):
                return self._statement_for_a_group_with_a_useless_positive_closure(mergeable_constraints)
        mergeable_constraints.sort()
        result = None
        if self._keep_less_specific:
            for a_statement in mergeable_constraints.constraints():
                if a_statement.cardinality == POSITIVE_CLOSURE:
                    result = a_statement
                    break
            if result is None:
                result = mergeable_constraints.get(0)
        else:
            for a_statement in mergeable_constraints.constraints():
                if a_statement.cardinality != POSITIVE_CLOSURE:
                    result = a_statement
                    break
            if result is None:
                result = mergeable_constraints.get(0)

        for a_statement in mergeable_constraints.constraints():
            if a_statement.cardinality != result.cardinality:
                result.add_comment(self._turn_statement_into_comment(a_statement, self._namespaces_dict))
        return result

    def _is_a_group_of_statements_with_useless_positive_closure(self, list_of_candidate_sentences):  # todo during refactor
        if len(list_of_candidate_sentences) != 2:
            return False
        if abs(list_of_candidate_sentences.get(0).probability - list_of_candidate_sentences.get(1).probability) > self._tolerance:
            return False
        one_if_there_is_a_single_positive_closure = -1
        for a_statement in list_of_candidate_sentences.constraints():
            if POSITIVE_CLOSURE == a_statement.cardinality:
                one_if_there_is_a_single_positive_closure *= -1
        if one_if_there_is_a_single_positive_closure == 1:
            return True
        return False

    def _statement_for_a_group_with_a_useless_positive_closure(self, group_of_candidate_statements):  # TODO DURING REFACTOR
        for a_statement in group_of_candidate_statements.constraints():
            if a_statement.cardinality != POSITIVE_CLOSURE:
                return a_statement
        raise ValueError("The received group does not contain any statement with positive closure")

    def _group_node_constraints(self, candidate_statements):
        result = []
        already_visited = set()
        for i in range(0, len(candidate_statements)):
            a_statement = candidate_statements[i]
            if a_statement.st_property == self._instantiation_property_str or self._is_a_literal(a_statement.st_type):
                result.append(a_statement)
                already_visited.add(a_statement)
            else:  # a_statement.st_property != self._instantiation_property_str and it is not a literal obj
                if a_statement not in already_visited:
                    already_visited.add(a_statement)
                    group_to_decide = MergeableConstraints(initial_constraint=a_statement,
                                                           statement_serializer_factory=self._statement_serializer_factory,
                                                           namespaces_dict=self._namespaces_dict)

                    result.append(self._find_and_merge_potentially_swapped_constraints(
                        mergeable_constraints=group_to_decide,
                        already_visited=already_visited,
                        all_original_statements=candidate_statements,
                        target_index_original_statements=i+1,
                    ))
        return result

    def _find_and_merge_potentially_swapped_constraints(self, mergeable_constraints,
                                                        already_visited,
                                                        all_original_statements,
                                                        target_index_original_statements):
        self._find_all_candidates_to_merge_swapped_constraints_at_node_level(
            mergeable_constraints=mergeable_constraints,
            already_visited=already_visited,
            all_original_statements=all_original_statements,
            target_index_original_statements=target_index_original_statements
        )
        return self._merge_swapped_constraints_at_node_level(  # TODO
            group_to_merge=mergeable_constraints
        )

    def _find_all_candidates_to_merge_swapped_constraints_at_node_level(self,
                                                                        mergeable_constraints,
                                                                        already_visited,
                                                                        all_original_statements,
                                                                        target_index_original_statements):
        for j in range(target_index_original_statements, len(all_original_statements)):
            if self._statements_have_same_prop_and_are_node_type(mergeable_constraints.get(0),  # todo check have_same_prop_behaviour
                                                                 all_original_statements[j]):
                mergeable_constraints.add_constraint(all_original_statements[j])
                already_visited.add(all_original_statements[j])
        # No need to return anything, modifying the received parameters.

    def _statements_have_same_prop_and_are_node_type(self, original_sentence,
                                                           target_sentence):
        # In this context, we can assume that the original one does not point to a literal
        if target_sentence.st_type in [IRI_ELEM_TYPE, BNODE_ELEM_TYPE] or target_sentence.st_type.startswith(STARTING_CHAR_FOR_SHAPE_NAME):
            return original_sentence.st_property == target_sentence.st_property
        return False

    def _merge_swapped_constraints_at_node_level(self, group_to_merge):
        if len(group_to_merge) == 1:
            return group_to_merge.get(0)
        group_to_merge.sort()
        return group_to_merge.merge_group(disable_or=self._disable_or_statements,
                                          redundant_or_allowed=self._allow_redundant_or)



    def _statements_without_shapes_to_remove(self, original_statements, shape_names_to_remove):
        new_statements = []
        for a_statement in original_statements:
            if not a_statement.st_type in shape_names_to_remove:
                new_statements.append(a_statement)
        return new_statements

    def _is_a_literal(self, node_kind_str):
        if node_kind_str.startswith(STARTING_CHAR_FOR_SHAPE_NAME):
            return False
        if node_kind_str in [IRI_ELEM_TYPE, BNODE_ELEM_TYPE]:
            return False
        return True

class MergeableConstraints(object):
    """
    Internal class used to handle constraints created during the voting process that should be merged into a single one.
    """
    def __init__(self, initial_constraint=None, statement_serializer_factory=None, namespaces_dict=None):
        self._constraints = []
        self._bnode_constraint = None
        self._shape_constraints = []
        self._iri_constraint = None
        self._dominant_constraint = None
        self._disable_or = True
        self._redundant_or_enabled = False
        self._statement_serializer_factory = statement_serializer_factory
        self._namespaces_dict = namespaces_dict
        if initial_constraint is not None:
            self.add_constraint(initial_constraint)

    def add_constraint(self, statement):
        self._constraints.append(statement)
        if statement.st_type == BNODE_ELEM_TYPE:
            self._bnode_constraint = statement
        elif statement.st_type == IRI_ELEM_TYPE:
            self._iri_constraint = statement
        else:
            self._shape_constraints.append(statement)


    @property
    def has_bnodes(self):
        return self._bnode_constraint is not None

    @property
    def has_iri_constraint(self):
        return self._iri_constraint is not None

    @property
    def has_shape_constraints(self):
        return len(self._shape_constraints) > 0

    def get(self, index):
        return self._constraints[index]

    def __len__(self):
        return len(self._constraints)

    def sort(self):
        self._constraints.sort(reverse=True, key=lambda x: x.probability)
        self._shape_constraints.sort(reverse=True, key=lambda x: x.probability)

    def constraints(self):
        for a_constaint in self._constraints:
            yield a_constaint

    def merge_group(self, disable_or, redundant_or_allowed):
        self.sort()
        self._disable_or = disable_or
        self._redundant_or_enabled = redundant_or_allowed
        if self.has_bnodes:
            self._bnode_merging_strategy()
        else:
            self._no_bnode_merging_strategy()
        self._merge_content_in_single_statement()
        return self._dominant_constraint

    def _bnode_merging_strategy(self):
        if self.has_iri_constraint:  # iri + bnod = shape
            if len(self._shape_constraints) == 1 \
                    and self._iri_constraint.n_occurences + self._bnode_constraint.n_occurences \
                    == self._shape_constraints[0].n_occurences:
                self._promote_to_dominant(self._shape_constraints[0])
            else: # there are iri, bnode, and shape, not composed
                self._add_dominant(Statement(st_property=self._bnode_constraint.st_property,
                                             st_type=NONLITERAL_ELEM_TYPE,
                                             n_occurences=self._bnode_constraint.n_occurences + self._iri_constraint.n_occurences,
                                             is_inverse=self._bnode_constraint.is_inverse,
                                             probability=self._bnode_constraint.probability + self._iri_constraint.probability,
                                             cardinality=self._most_general_cardinality(self._bnode_constraint.cardinality,
                                                                                        self._iri_constraint.cardinality),
                                             serializer_object=self._statement_serializer_factory.get_base_serializer(is_inverse=self._bnode_constraint.is_inverse)
                                             ))
        elif len(self._shape_constraints) != 0 \
                and self._shape_constraints[0].n_occurences == self._bnode_constraint.n_occurences:
                # Case of at least a shape being used exactyl as many times as BNODE
            self._promote_to_dominant(self._shape_constraints[0])
        else:  # No IRI and no shape is used enough, BNODE should subsume everything.
            self._promote_to_dominant(self._bnode_constraint)



    def _no_bnode_merging_strategy(self):
        if self._iri_constraint is not None and \
                (len(self._shape_constraints) == 0 or
                 self._shape_constraints[0].n_occurences < self._iri_constraint.n_occurences):
            self._promote_to_dominant(self._iri_constraint)
        else:
            self._promote_to_dominant(self._shape_constraints[0])

    def _merge_content_in_single_statement(self):
        self._tune_dominant_constraint_wrt_or_config()
        self._feed_dominant_constraint_with_comments()

    def _feed_dominant_constraint_with_comments(self):
        if self._bnode_constraint is not None:
            self._dominant_constraint.add_comment(
                AbstractShexingStrategy._turn_statement_into_comment(self._bnode_constraint,
                                                                     self._namespaces_dict)
            )
            if self._iri_constraint is not None:  # Add IRI one only if there are both bnodes and iris.
                self._dominant_constraint.add_comment(
                    AbstractShexingStrategy._turn_statement_into_comment(self._iri_constraint,
                                                                         self._namespaces_dict)
                )
        for a_constraint in self._shape_constraints:
            if self._dominant_constraint != a_constraint:
                self._dominant_constraint.add_comment(
                    AbstractShexingStrategy._turn_statement_into_comment(a_constraint,
                                                                         self._namespaces_dict)
                )

    def _tune_dominant_constraint_wrt_or_config(self):
        if self._disable_or:
            if self._dominant_constraint.st_type not in [IRI_ELEM_TYPE, BNODE_ELEM_TYPE, NONLITERAL_ELEM_TYPE] \
                    and len(self._shape_constraints) > 0 \
                    and self._shape_constraints[0].n_occurences == self._dominant_constraint:
                if self._iri_constraint is not None:
                    self._promote_to_dominant(self._iri_constraint)
                else:  # It must be a BNODE
                    self._promote_to_dominant(self._bnode_constraint)
        else:  # or allowed
            st_types = []
            if self._redundant_or_enabled:
                if self._dominant_constraint not in self._shape_constraints:
                    st_types.append(self._dominant_constraint.st_type)
                st_types = st_types + [a_constraint.st_type for a_constraint in self._shape_constraints]
            elif not self._redundant_or_enabled and self._dominant_constraint in self._shape_constraints:
                st_types = st_types + [a_constraint.st_type for a_constraint in self._shape_constraints]
            if len(st_types) > 1:
                self._dominant_constraint = FixedPropChoiceStatement(
                    st_property=self._dominant_constraint.st_property,
                    st_types=st_types,
                    cardinality=self._dominant_constraint.cardinality,
                    probability=self._dominant_constraint.probability,
                    n_occurences=self._dominant_constraint.n_occurences,
                    serializer_object=self._statement_serializer_factory.get_choice_serializer(
                        is_inverse=self._dominant_constraint.is_inverse
                    ),
                    is_inverse=self._dominant_constraint.is_inverse)





    def _most_general_cardinality(self, a_card1, a_card2):
        if POSITIVE_CLOSURE in (a_card1, a_card2) or a_card1 != a_card2:
            return POSITIVE_CLOSURE
        else:
            return a_card1
    def _add_dominant(self, statement):
        self._dominant_constraint = statement

    def _promote_to_dominant(self, statement):
        self._dominant_constraint = statement
        self._constraints.remove(statement)

    def _demote_dominant_to_plain(self):
        if self._dominant_constraint.st_type not in [IRI_ELEM_TYPE, BNODE_ELEM_TYPE, NONLITERAL_ELEM_TYPE]:
            self.add_constraint(self._dominant_constraint)
            self.sort()
        self._dominant_constraint = None

