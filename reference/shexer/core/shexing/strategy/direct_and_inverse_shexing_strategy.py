from shexer.core.shexing.strategy.abstract_shexing_strategy import AbstractShexingStrategy
from shexer.utils.shapes import build_shapes_name_for_class_uri
from shexer.model.statement import Statement
from shexer.model.shape import Shape

_POS_FEATURES_DIRECT = 0
_POS_FEATURES_INVERSE = 1


class DirectAndInverseShexingStrategy(AbstractShexingStrategy):

    def __init__(self, class_shexer):
        super().__init__(class_shexer)
        self._class_profile_dict = self._class_shexer._class_profile_dict
        self._shapes_namespace = self._class_shexer._shapes_namespace
        self._class_counts_dict = self._class_shexer._class_counts_dict

    def remove_statements_to_gone_shapes(self, shape, shape_names_to_remove):
        shape.direct_statements = self._statements_without_shapes_to_remove(
            original_statements=shape.direct_statements,
            shape_names_to_remove=shape_names_to_remove)
        shape.inverse_statements = self._statements_without_shapes_to_remove(
            original_statements=shape.inverse_statements,
            shape_names_to_remove=shape_names_to_remove)

    def _yield_base_shapes_direction_aware(self, acceptance_threshold):
        for a_class_key in self._class_profile_dict:
            name = build_shapes_name_for_class_uri(class_uri=a_class_key,
                                                   shapes_namespace=self._shapes_namespace)
            number_of_instances = float(self._class_counts_dict[a_class_key])

            direct_statements = self._build_base_direct_statements(acceptance_threshold, a_class_key,
                                                                   number_of_instances)
            inverse_statements = self._build_base_inverse_statements(acceptance_threshold=acceptance_threshold,
                                                                     class_key=a_class_key,
                                                                     number_of_instances=number_of_instances)
            yield Shape(name=name,
                        class_uri=a_class_key,
                        statements=direct_statements + inverse_statements,
                        n_instances=int(number_of_instances))

    def set_valid_shape_constraints(self, shape):
        valid_statements = self._select_valid_statements_of_shape(shape.direct_statements)
        valid_statements += self._select_valid_statements_of_shape(shape.inverse_statements)
        self._tune_list_of_valid_statements(valid_statements=valid_statements)
        shape.statements = valid_statements

    def _build_base_inverse_statements(self, acceptance_threshold, class_key, number_of_instances):
        result = []
        for a_prop_key in self._class_profile_dict[class_key][_POS_FEATURES_INVERSE]:
            for a_type_key in self._class_profile_dict[class_key][_POS_FEATURES_INVERSE][a_prop_key]:
                for a_cardinality in self._class_profile_dict[class_key][_POS_FEATURES_INVERSE][a_prop_key][a_type_key]:
                    n_occurences = self._class_profile_dict[class_key][_POS_FEATURES_INVERSE][a_prop_key][a_type_key][a_cardinality]
                    frequency = self._compute_frequency(number_of_instances,
                                                        n_occurences)
                    if frequency >= acceptance_threshold:
                        result.append(Statement(st_property=a_prop_key,
                                                st_type=a_type_key,
                                                cardinality=a_cardinality,
                                                probability=frequency,
                                                n_occurences=n_occurences,
                                                is_inverse=True))
        return result

    def _build_base_direct_statements(self, acceptance_threshold, class_key, number_of_instances):
        result = []
        for a_prop_key in self._class_profile_dict[class_key][_POS_FEATURES_DIRECT]:
            for a_type_key in self._class_profile_dict[class_key][_POS_FEATURES_DIRECT][a_prop_key]:
                for a_cardinality in self._class_profile_dict[class_key][_POS_FEATURES_DIRECT][a_prop_key][a_type_key]:
                    n_occurences = self._class_profile_dict[class_key][_POS_FEATURES_DIRECT][a_prop_key][a_type_key][a_cardinality]
                    frequency = self._compute_frequency(number_of_instances,
                                                        n_occurences)
                    if frequency >= acceptance_threshold:
                        result.append(Statement(st_property=a_prop_key,
                                                st_type=a_type_key,
                                                cardinality=a_cardinality,
                                                probability=frequency,
                                                is_inverse=False,
                                                n_occurences=n_occurences))
        return result

    # def _set_serializer_object_for_statements(self, statement):
    #     statement.serializer_object = BaseStatementSerializer(
    #         instantiation_property_str=self._instantiation_property_str,
    #         disable_comments=self._disable_comments,
    #         is_inverse=statement.is_inverse)
    #
    # def _get_serializer_for_choice_statement(self):
    #     return FixedPropChoiceStatementSerializer(
    #         instantiation_property_str=self._instantiation_property_str,
    #         disable_comments=self._disable_comments,
    #         is_inverse=statement.is_inverse)
