import json

from shexer.consts import RDF_TYPE, SHAPES_DEFAULT_NAMESPACE
from shexer.core.shexing.strategy.direct_shexing_strategy import DirectShexingStrategy
from shexer.core.shexing.strategy.direct_and_inverse_shexing_strategy import DirectAndInverseShexingStrategy
from shexer.utils.target_elements import determine_original_target_nodes_if_needed
from shexer.utils.log import log_msg
from shexer.consts import RATIO_INSTANCES


class ClassShexer(object):

    def __init__(self, class_counts_dict, class_profile_dict=None, class_profile_json_file=None,
                 remove_empty_shapes=True, original_target_classes=None, original_shape_map=None,
                 discard_useless_constraints_with_positive_closure=True, keep_less_specific=True,
                 all_compliant_mode=True, instantiation_property=RDF_TYPE, disable_or_statements=True,
                 disable_comments=False, namespaces_dict=None, tolerance_to_keep_similar_rules=0,
                 allow_opt_cardinality=True, disable_exact_cardinality=False,
                 shapes_namespace=SHAPES_DEFAULT_NAMESPACE, inverse_paths=False,
                 decimals=-1, instances_report_mode=RATIO_INSTANCES, detect_minimal_iri=False,
                 class_min_iris_dict=None, allow_redundant_or=False):
        self._class_counts_dict = class_counts_dict
        self._class_profile_dict = class_profile_dict if class_profile_dict is not None else self._load_class_profile_dict_from_file(
            class_profile_json_file)
        self._class_min_iris_dict = class_min_iris_dict

        self._shapes_list = []
        self._remove_empty_shapes = remove_empty_shapes
        self._all_compliant_mode = all_compliant_mode
        self._disable_or_statements = disable_or_statements
        self._instantiation_property_str = str(instantiation_property)
        self._disable_comments = disable_comments
        self._discard_useless_positive_closures = discard_useless_constraints_with_positive_closure
        self._namespaces_dict = namespaces_dict if namespaces_dict is not None else {}
        self._keep_less_specific = keep_less_specific
        self._tolerance = tolerance_to_keep_similar_rules
        self._allow_opt_cardinality = allow_opt_cardinality
        self._disable_exact_cardinality = disable_exact_cardinality
        self._shapes_namespace = shapes_namespace
        self._decimals = decimals
        self._instances_report_mode = instances_report_mode
        self._detect_minimal_iri = detect_minimal_iri
        self._allow_redundant_or = allow_redundant_or

        self._original_target_nodes = determine_original_target_nodes_if_needed(remove_empty_shapes=remove_empty_shapes,
                                                                                original_target_classes=original_target_classes,
                                                                                original_shape_map=original_shape_map,
                                                                                shapes_namespace=shapes_namespace)
        self._strategy = DirectShexingStrategy(self) if not inverse_paths \
            else DirectAndInverseShexingStrategy(self)

    def shex_classes(self, acceptance_threshold=0,
                     verbose=False):
        log_msg(verbose=verbose,
                msg="Starting shape extraction...")
        self._build_shapes(acceptance_threshold)
        log_msg(verbose=verbose,
                msg="Shape drafts built. Sorting constraints...")
        self._sort_shapes()
        log_msg(verbose=verbose,
                msg="Constraints sorted. Adjusting cardinalities...")
        self._set_valid_constraints_of_shapes()
        log_msg(verbose=verbose,
                msg="Cardinalities adjusted. Cleaning empty shapes if needed...")
        self._clean_empty_shapes()
        log_msg(verbose=verbose,
                msg="No more shapes to clean. {} definitive shapes".format(len(self._shapes_list)))
        return self._shapes_list

    def _set_valid_constraints_of_shapes(self):
        for a_shape in self._shapes_list:
            self._strategy.set_valid_shape_constraints(a_shape)

    def _build_shapes(self, acceptance_threshold):
        for a_shape in self._strategy.yield_base_shapes(acceptance_threshold=acceptance_threshold):
            self._shapes_list.append(a_shape)

    def _sort_shapes(self):
        for a_shape in self._shapes_list:
            a_shape.sort_statements(reverse=True,
                                    callback=self._value_to_compare_statements)

    def _clean_empty_shapes(self):
        if not self._remove_empty_shapes:
            return
        shapes_to_remove = self._detect_shapes_to_remove()

        while (len(shapes_to_remove) != 0):
            self._iteration_remove_empty_shapes(shapes_to_remove)
            shapes_to_remove = self._detect_shapes_to_remove()

    def _detect_shapes_to_remove(self):
        result = set()
        for a_shape in self._shapes_list:
            if a_shape.n_statements == 0:
                result.add(a_shape.name)
        return result

    def _iteration_remove_empty_shapes(self, shape_names_to_remove):
        self._remove_shapes_without_statements(shape_names_to_remove)
        self._remove_statements_to_gone_shapes(shape_names_to_remove)


    def _remove_statements_to_gone_shapes(self, shape_names_to_remove):
        for a_shape in self._shapes_list:
            self._strategy.remove_statements_to_gone_shapes(a_shape, shape_names_to_remove)

    def _remove_shapes_without_statements(self, shape_names_to_remove):
        new_shape_list = []
        for a_shape in self._shapes_list:
            if not a_shape.name in shape_names_to_remove:
                new_shape_list.append(a_shape)
        self._shapes_list = new_shape_list

    def _value_to_compare_statements(self, a_statement):
        return a_statement.probability

    @staticmethod
    def _load_class_profile_dict_from_file(source_file):
        with open(source_file, "r") as in_stream:
            return json.load(in_stream)


