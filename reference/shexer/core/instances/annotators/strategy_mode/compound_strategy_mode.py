from shexer.core.instances.annotators.strategy_mode.base_strategy_mode import BaseStrategyMode


class CompoundStrategyMode(BaseStrategyMode):

    def __init__(self, annotator_ref, list_of_strategies):
        super().__init__(annotator_ref)
        self._list_of_strategies = list_of_strategies


    def is_relevant_triple(self, a_triple):
        for a_strategy in self._list_of_strategies:
            if a_strategy.is_relevant_triple(a_triple):
                return True
        return False

    def annotate_triple(self, a_triple):
        for a_strategy in self._list_of_strategies:
            a_strategy.annotate_triple(a_triple)

    def annotation_post_parsing(self):
        for a_strategy in self._list_of_strategies:
            a_strategy.annotation_post_parsing()
