from shexer.core.instances.annotators.strategy_mode.base_strategy_mode import BaseStrategyMode
from shexer.core.instances.pconsts import _S, _P, _O
from shexer.core.instances.annotators.strategy_mode.instances_cap_exception import InstancesCapException

class InstanceCapMode(BaseStrategyMode):

    def __init__(self, annotator_ref, internal_strategy, instance_limit, n_target_classes = -1):
        super().__init__(annotator_ref)
        self._internal_strategy = internal_strategy
        self._instance_limit = instance_limit
        self._class_counts = {}
        self._n_target_classes = n_target_classes
        self._n_classes_completed = 0

        self.annotate_class = self._annotate_class_with_stop_condition if n_target_classes > 0 \
            else self._annotate_class_with_no_stop_condition


    def is_relevant_triple(self, a_triple):
        return self._check_class_counts(a_triple) and self._internal_strategy.is_relevant_triple(a_triple)

    def _check_class_counts(self, a_triple):
        """
        It returns False when it receives an instantiation triple whose class has already reached the maz number of
        instances allowed.

        :param a_triple:
        :return:
        """
        if a_triple[_P] != self._instantiation_property:
            return True
        if a_triple[_O].iri not in self._class_counts:
            return True
        if self._class_counts[a_triple[_O].iri] < self._instance_limit:
            return True
        return False


    def annotate_triple(self, a_triple):
        if self._instance_tracker.is_an_instantiation_prop(a_triple[_P]):
            self._annotator_ref.add_instance_to_instances_dict(a_triple)
            self.annotate_class(a_triple)

    def annotate_class(self, a_triple):
        raise NotImplementedError()


    def _annotate_class_with_stop_condition(self, a_triple):
        self._instances_dict[a_triple[_S].iri].append(a_triple[_O].iri)
        if a_triple[_O].iri not in self._class_counts:
            self._class_counts[a_triple[_O].iri] = 0
        self._class_counts[a_triple[_O].iri] += 1
        if self._class_counts[a_triple[_O].iri] == self._instance_limit:
            self._n_classes_completed += 1
        if self._n_classes_completed == self._n_target_classes:
            raise InstancesCapException()

    def _annotate_class_with_no_stop_condition(self, a_triple):
        self._instances_dict[a_triple[_S].iri].append(a_triple[_O].iri)
        if a_triple[_O].iri not in self._class_counts:
            self._class_counts[a_triple[_O].iri] = 0
        self._class_counts[a_triple[_O].iri] += 1