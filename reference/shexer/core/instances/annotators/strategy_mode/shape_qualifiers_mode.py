from shexer.core.instances.annotators.strategy_mode.base_strategy_mode import BaseStrategyMode
from shexer.utils.triple_yielders import check_if_property_belongs_to_namespace_list
from shexer.utils.shapes import build_shape_name_for_qualifier_prop_uri
from shexer.core.instances.pconsts import _P, _O

class ShapeQualifiersMode(BaseStrategyMode):

    def __init__(self, annotator_ref, namespaces_for_qualifiers_props, shapes_namespace):
        super().__init__(annotator_ref)
        self._namespaces_for_qualifiers_props = namespaces_for_qualifiers_props
        self._dict_of_qualifier_properties = {}
        self._shapes_namespace = shapes_namespace


    def is_relevant_triple(self, a_triple):
        if check_if_property_belongs_to_namespace_list(str_prop=a_triple[_P].iri,
                                                       namespaces=self._namespaces_for_qualifiers_props):
            return True
        return False


    def annotate_triple(self, a_triple):
        self._annotate_qualifier_shape(a_triple[_P])
        self._annotate_instance_of_a_qualifier(a_triple)


    def _annotate_instance_of_a_qualifier(self, a_triple):
        if a_triple[_O].iri not in self._instances_dict:
            self._instances_dict[a_triple[_O].iri] = []
        self._instances_dict[a_triple[_O].iri].append(self._dict_of_qualifier_properties[a_triple[_P].iri])


    def _annotate_qualifier_shape(self, a_property):
        str_prop = a_property.iri
        if str_prop not in self._dict_of_qualifier_properties:
            self._dict_of_qualifier_properties[str_prop] = \
                build_shape_name_for_qualifier_prop_uri(prop_uri=str_prop,
                                                        shapes_namespace=self._shapes_namespace)
