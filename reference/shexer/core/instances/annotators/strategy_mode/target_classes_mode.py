
from shexer.core.instances.annotators.strategy_mode.base_strategy_mode import BaseStrategyMode
from shexer.core.instances.pconsts import _P, _O

class TargetClassesMode(BaseStrategyMode):

    def __init__(self, annotator_ref):
        super().__init__(annotator_ref)
        self._target_classes = self._annotator_ref._target_classes

    def is_relevant_triple(self, a_triple):
        if a_triple[_P] != self._instantiation_property:
            return False
        if a_triple[_O] not in self._target_classes:
            return False
        return True

    def annotate_triple(self, a_triple):
        if self._instance_tracker.is_an_instantiation_prop(a_triple[_P]):
            self._annotator_ref.add_instance_to_instances_dict(a_triple)
            self.annotate_class(a_triple)

