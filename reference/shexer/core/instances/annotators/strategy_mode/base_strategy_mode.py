from shexer.core.instances.pconsts import _S, _O

class BaseStrategyMode(object):

    def __init__(self, annotator_ref):
        self._annotator_ref = annotator_ref
        self._instantiation_property = self._annotator_ref._instantiation_property
        self._instances_dict = self._annotator_ref._instances_dict
        self._instance_tracker = self._annotator_ref._instance_tracker

    def is_relevant_triple(self, a_triple):
        raise NotImplementedError()

    def annotate_triple(self, a_triple):
        raise NotImplementedError()

    def annotate_class(self, a_triple):
        self._instances_dict[a_triple[_S].iri].append(a_triple[_O].iri)

    def annotation_post_parsing(self):
        pass  # By default, do nothing.
