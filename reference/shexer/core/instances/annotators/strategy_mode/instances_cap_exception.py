
class InstancesCapException(BaseException):

    def __init__(self):
        pass