from shexer.core.instances.annotators.base_annotator import BaseAnnotator
from shexer.core.instances.annotators.annotator_tracking_instances import AnnotatorTrackingInstances

def get_proper_annotator(track_hierarchies, instance_tracker_ref):
    return BaseAnnotator(instance_tracker_ref) if not track_hierarchies \
        else AnnotatorTrackingInstances(instance_tracker_ref)