from shexer.core.instances.pconsts import _S, _P, _O
from shexer.core.instances.annotators.strategy_mode.target_classes_mode import TargetClassesMode
from shexer.core.instances.annotators.strategy_mode.all_classes_mode import AllClasesMode
from shexer.core.instances.annotators.strategy_mode.shape_qualifiers_mode import ShapeQualifiersMode
from shexer.core.instances.annotators.strategy_mode.compound_strategy_mode import CompoundStrategyMode
from shexer.core.instances.annotators.strategy_mode.instance_cap_mode import InstanceCapMode
from shexer.model.Literal import Literal


class BaseAnnotator(object):

    def __init__(self, instance_tracker):
        self._instance_tracker = instance_tracker

        # Some short-path to avoid verbosity and too deep references. We'll be gentle with private stuff ;)
        self._all_classes_mode = self._instance_tracker._all_classes_mode
        self._instantiation_property = self._instance_tracker._instantiation_property
        self._subclass_property = self._instance_tracker._subclass_property
        self._instances_dict = self._instance_tracker._instances_dict
        self._classes_considered_in_htree = self._instance_tracker._classes_considered_in_htree
        self._htree = self._instance_tracker._htree
        self._shape_qualifiers_mode = self._instance_tracker._shape_qualifiers_mode
        self._namespaces_for_qualifiers_props = self._instance_tracker._namespaces_for_qualifiers_props
        self._target_classes = self._instance_tracker._target_classes
        self._shapes_namespace = self._instance_tracker._shapes_namespace
        self._instances_cap = self._instance_tracker._instances_cap

        self._strategy_mode = self._get_proper_strategy()

    def is_relevant_triple(self, a_triple):
        if isinstance(a_triple[_O], Literal):  # A literal is never a class (nor an instance of a qualifier shape)
            return False
        return self._strategy_mode.is_relevant_triple(a_triple)

    def annotate_triple(self, a_triple):
        self._strategy_mode.annotate_triple(a_triple)

    def add_instance_to_instances_dict(self, a_triple):
        if a_triple[_S].iri not in self._instances_dict:
            self._instances_dict[a_triple[_S].iri] = []

    # def annotate_class(self, a_triple):
    #     self._strategy_mode.annotate_class(a_triple)

    def annotation_post_parsing(self):
        self._strategy_mode.annotation_post_parsing()


    def _get_proper_strategy(self):
        result = None
        strategies_list = []
        target_classes_flag = False
        if self._all_classes_mode:
            strategies_list.append(AllClasesMode(annotator_ref=self))
        if self._target_classes is not None and len(self._target_classes) > 0:
            strategies_list.append(TargetClassesMode(annotator_ref=self))
            target_classes_flag = True
        if self._shape_qualifiers_mode:
            strategies_list.append(
                ShapeQualifiersMode(annotator_ref=self,
                                    namespaces_for_qualifiers_props=self._namespaces_for_qualifiers_props,
                                    shapes_namespace=self._shapes_namespace))

        if len(strategies_list) == 0:
            raise ValueError("Wrong combination of params when building the instance tracker. There are not target classes")
        if len(strategies_list) == 1:
            result = strategies_list[0]
        else:
            result = CompoundStrategyMode(annotator_ref=self,
                                        list_of_strategies=strategies_list)
        return result if self._instances_cap <= 0 else \
            InstanceCapMode(annotator_ref=self,
                            internal_strategy=result,
                            instance_limit=self._instances_cap,
                            n_target_classes=-1 if not target_classes_flag or len(strategies_list) > 1
                                                   else len(self._target_classes)
                            )
