from shexer.core.instances.pconsts import _S, _P, _O
from shexer.core.instances.annotators.base_annotator import BaseAnnotator

class AnnotatorTrackingInstances(BaseAnnotator):

    def __init__(self, instance_tracker):
        super().__init__(instance_tracker)

    def annotate_triple(self, a_triple):
        if self._instance_tracker.is_subclass_property(a_triple[_P]):
            self._annotate_subclass(a_triple)
        else:
            super().annotate_triple(a_triple)

    def is_relevant_triple(self, a_triple):
        if a_triple[_P] == self._subclass_property:
            return True
        else:
            return super().annotate_triple(a_triple)

    def annotation_post_parsing(self):
        for a_key_class in self._instances_dict:
            self._classes_considered_in_htree.add(a_key_class)
        iri_node = self._htree.iri_node
        for a_key_class in self._classes_considered_in_htree:
            a_class_node = self._get_appropiate_iri_node_and_add_to_htree_if_needed(a_key_class)
            if not a_class_node.has_parents():
                a_class_node.add_parent(iri_node)

    def _get_appropiate_iri_node_and_add_to_htree_if_needed(self, str_iri):
        return self._htree.get_node_of_element(str_iri) if self._htree.contains_element(str_iri) \
            else self._htree.create_node_IRI(str_iri)

    def _annotate_subclass(self, a_triple):
        str_s = str(a_triple[_S])
        str_o = str(a_triple[_O])

        subj_node = self._get_appropiate_iri_node_and_add_to_htree_if_needed(str_s)
        obj_node = self._get_appropiate_iri_node_and_add_to_htree_if_needed(str_o)
        subj_node.add_parent(obj_node)

        self._classes_considered_in_htree.add(str_s)
        self._classes_considered_in_htree.add(str_o)
