from shexer.core.instances.abstract_instance_tracker import  _RDF_TYPE, _RDFS_SUBCLASS_OF
from shexer.core.instances.instance_tracker import InstanceTracker
from shexer.consts import SHAPES_DEFAULT_NAMESPACE
from shexer.model.bnode import BNode
from shexer.core.instances.pconsts import _S


class EndpointInstanceTracker(InstanceTracker):

    def __init__(self, target_classes, triples_yielder, instantiation_property=_RDF_TYPE, all_classes_mode=False,
                 subclass_property=_RDFS_SUBCLASS_OF, track_hierarchies=True, shape_qualifiers_mode=False,
                 namespaces_for_qualifier_props=None, shapes_namespace=SHAPES_DEFAULT_NAMESPACE, instances_cap=-1):
        super().__init__(target_classes=target_classes,
                         triples_yielder=triples_yielder,
                         instantiation_property=instantiation_property,
                         all_classes_mode=all_classes_mode,
                         subclass_property=subclass_property,
                         track_hierarchies=track_hierarchies,
                         shape_qualifiers_mode=shape_qualifiers_mode,
                         namespaces_for_qualifier_props=namespaces_for_qualifier_props,
                         shapes_namespace=shapes_namespace,
                         instances_cap=instances_cap)

    def _yield_relevant_triples(self):
        for a_triple in self._triples_yielder.yield_triples():
            if self._annotator.is_relevant_triple(a_triple) and self._subject_is_not_bnode(a_triple):
                self._relevant_triples += 1
                yield a_triple
            else:
                self._not_relevant_triples += 1

    def _subject_is_not_bnode(self, a_triple):
        return not isinstance(a_triple[_S], BNode)
