from shexer.core.instances.abstract_instance_tracker import AbstractInstanceTracker
from shexer.utils.log import log_msg


class ShapeMapInstanceTracker(AbstractInstanceTracker):

    def __init__(self, shape_map):
        self._shape_map = shape_map
        self._instances_dict = {}

    def track_instances(self, verbose=False):
        log_msg(verbose=verbose,
                msg="Starting instance tracker...")
        for an_item in self._shape_map.yield_items():
            self._solve_targets_of_an_item(an_item)
        log_msg(verbose=verbose,
                msg="Instance tracker finished. {} instances located".format(len(self._instances_dict)))
        return self._instances_dict

    def _solve_targets_of_an_item(self, an_item):
        for a_node in an_item.node_selector.get_target_nodes():
            if a_node not in self._instances_dict:
                self._instances_dict[a_node] = []
            self._instances_dict[a_node].append(an_item.shape_label)

    def _specific_disambiguator_prefix(self):
        return "custom_"
