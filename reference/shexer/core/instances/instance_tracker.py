from shexer.core.instances.abstract_instance_tracker import AbstractInstanceTracker, _RDF_TYPE, _RDFS_SUBCLASS_OF
from shexer.consts import SHAPES_DEFAULT_NAMESPACE
from shexer.utils.log import log_msg
from shexer.core.instances.annotators.strategy_mode.instances_cap_exception import InstancesCapException
from shexer.utils.factories.h_tree import get_basic_h_tree
from shexer.core.instances.annotators.annotator_func import get_proper_annotator




class InstanceTracker(AbstractInstanceTracker):

    def __init__(self, target_classes, triples_yielder, instantiation_property=_RDF_TYPE,
                 all_classes_mode=False, subclass_property=_RDFS_SUBCLASS_OF, track_hierarchies=True,
                 shape_qualifiers_mode=False, namespaces_for_qualifier_props=None,
                 shapes_namespace=SHAPES_DEFAULT_NAMESPACE, instances_cap=-1):
        self._target_classes = target_classes
        self._all_classes_mode = all_classes_mode
        self._instances_dict = self._build_instances_dict()
        self._triples_yielder = triples_yielder
        self._instantiation_property = self._decide_instantiation_property(instantiation_property)
        self._relevant_triples = 0
        self._not_relevant_triples = 0
        self._subclass_property = subclass_property
        self._track_hierarchies = track_hierarchies
        self._shape_qualifiers_mode = shape_qualifiers_mode
        self._namespaces_for_qualifiers_props = [] if namespaces_for_qualifier_props is None else namespaces_for_qualifier_props
        self._shapes_namespace = shapes_namespace
        self._instances_cap = instances_cap

        self._htree = get_basic_h_tree() if track_hierarchies else None
        self._classes_considered_in_htree = set() if track_hierarchies else None

        self._annotator = get_proper_annotator(track_hierarchies=track_hierarchies,
                                               instance_tracker_ref=self)

    def _specific_disambiguator_prefix(self):
        return "class_"

    @property
    def relevant_triples(self):
        return self._relevant_triples

    @property
    def not_relevant_triples(self):
        return self._not_relevant_triples

    @property
    def htree(self):
        return self._htree

    def track_instances(self, verbose=False):
        log_msg(verbose=verbose,
                msg="Starting instance tracker...")
        self._reset_count()
        try:
            for a_revelant_triple in self._yield_relevant_triples():
                self._annotator.annotate_triple(a_revelant_triple)
        except InstancesCapException:
            pass  # It's OK, we just don't need to explore more
        self._annotator.annotation_post_parsing()
        log_msg(verbose=verbose,
                msg="Instance tracker finished. {} instances located".format(len(self._instances_dict)))
        return self._instances_dict

    def _yield_relevant_triples(self):
        for a_triple in self._triples_yielder.yield_triples():
            if self._annotator.is_relevant_triple(a_triple):
                self._relevant_triples += 1
                yield a_triple
            else:
                self._not_relevant_triples += 1


    def is_an_instantiation_prop(self, a_property):
        return a_property == self._instantiation_property

    def is_a_subclass_property(self, a_property):
        return a_property == self._subclass_property






