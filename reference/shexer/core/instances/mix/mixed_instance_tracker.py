from shexer.core.instances.abstract_instance_tracker import AbstractInstanceTracker
from shexer.utils.log import log_msg

class MixedInstanceTracker(AbstractInstanceTracker):

    def __init__(self, list_of_instance_trackers):
        self._reference_instance_tracker = list_of_instance_trackers[0]
        self._secondary_instance_trackers = [] if len(list_of_instance_trackers) <= 1 else list_of_instance_trackers[1:]
        self._disambiguator_counter = 0

    def track_instances(self, verbose=True):
        log_msg(verbose=verbose,
                msg="Starting instance tracking process with a MixedInstance tracker. "
                    "Several Instance Trackers may be launched...")
        reference_instances_dict = self._reference_instance_tracker.track_instances(verbose=verbose)
        for a_tracker in self._secondary_instance_trackers:
            self._integrate_dicts(reference_dict=reference_instances_dict,
                                  new_dict=a_tracker.track_instances(verbose=verbose),
                                  new_tracker=a_tracker)
        log_msg(verbose=verbose,
                msg="Every instance tracker has finished and their results have been integrated."
                    " {} instances have been located".format(len(reference_instances_dict)))
        return reference_instances_dict

    def _specific_disambiguator_prefix(self):
        return "mixed_"

    def _integrate_dicts(self, reference_dict, new_dict, new_tracker):
        original_classes = self._find_all_classes_in_dict(reference_dict)
        for an_instance, classes in new_dict.items():
            if an_instance not in reference_dict:
                reference_dict[an_instance] = []
            for a_class in classes:
                if a_class in original_classes:  # There is key_ambigüity, two trackers have
                                                 # identhical names for different elements
                    reference_dict[an_instance].append(self._get_label_for_ambiguous_class(a_class=a_class,
                                                                                           tracker=new_tracker))
                else:
                    reference_dict[an_instance].append(a_class)


    def _find_all_classes_in_dict(self, instances_dict):
        result = set()
        for classes in instances_dict.values():
            for a_class in classes:
                result.add(a_class)
        return result



    def _get_label_for_ambiguous_class(self, a_class, tracker):
        return tracker.disambiguator_prefix + a_class









