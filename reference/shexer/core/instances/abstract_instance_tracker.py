from shexer.model.property import Property
from shexer.utils.uri import remove_corners
from shexer.utils.factories.h_tree import get_basic_h_tree

_TRACKERS_DISAM_COUNT = 0

_RDF_TYPE = Property(content="http://www.w3.org/1999/02/22-rdf-syntax-ns#type")
_RDFS_SUBCLASS_OF = Property(content="http://www.w3.org/2000/01/rdf-schema#subClassOf")

class AbstractInstanceTracker(object):

    def track_instances(self, verbose=False):
        raise NotImplementedError()


    @property
    def disambiguator_prefix(self):
        """
        It returns a str that may help for disambiguation purposes if the instance_tracker is used to produce dicts
        that may be integrated with other instance dicts and there should be any key colission.
        :return:
        """
        global _TRACKERS_DISAM_COUNT
        _TRACKERS_DISAM_COUNT += 1
        return self._specific_disambiguator_prefix() + str(_TRACKERS_DISAM_COUNT )

    def _specific_disambiguator_prefix(self):
        raise NotImplementedError()

    @staticmethod
    def _build_instances_dict():
        return {}  # Empty in every case. Instances, on the fly, will be the keys

    @staticmethod
    def _decide_instantiation_property(instantiation_property):
        if instantiation_property == None:
            return _RDF_TYPE
        if type(instantiation_property) == type(_RDF_TYPE):
            return instantiation_property
        if type(instantiation_property) == str:
            return Property(remove_corners(a_uri=instantiation_property,
                                           raise_error_if_no_corners=False))
        raise ValueError("Unrecognized param type to define instantiation property")

    def _reset_count(self):
        self._relevant_triples = 0
        self._not_relevant_triples = 0
        self._htree = get_basic_h_tree()

