from shexer.utils.obj_references import check_just_one_not_none

from shexer.consts import SHEXC, SHACL_TURTLE, NT, TSV_SPO, N3, TURTLE, TURTLE_ITER, \
    RDF_XML, FIXED_SHAPE_MAP, JSON_LD, RDF_TYPE, SHAPES_DEFAULT_NAMESPACE, ZIP, GZ, XZ, \
    ALL_EXAMPLES, CONSTRAINT_EXAMPLES, SHAPE_EXAMPLES
from shexer.utils.factories.class_profiler_factory import get_class_profiler
from shexer.utils.factories.instance_tracker_factory import get_instance_tracker
from shexer.utils.factories.class_shexer_factory import get_class_shexer
from shexer.utils.factories.remote_graph_factory import get_remote_graph_if_needed
from shexer.utils.factories.shape_map_factory import get_shape_map_if_needed
from shexer.io.profile.formater.abstract_profile_serializer import AbstractProfileSerializer
from shexer.utils.factories.shape_serializer_factory import get_shape_serializer, get_uml_serializer
from shexer.utils.namespaces import find_adequate_prefix_for_shapes_namespaces
from shexer.utils.log import log_msg
from shexer.utils.uri import unprefixize_uri_if_possible
from shexer.utils.dict import reverse_keys_and_values
from shexer.consts import RATIO_INSTANCES


class Shaper(object):

    def __init__(self, target_classes=None,
                 file_target_classes=None,
                 input_format=NT,
                 instances_file_input=None,
                 graph_file_input=None,
                 graph_list_of_files_input=None,
                 raw_graph=None,
                 url_graph_input=None,
                 rdflib_graph=None,
                 list_of_url_input=None,
                 namespaces_dict=None,
                 # namespaces_dict_file=None,
                 instantiation_property=RDF_TYPE,
                 namespaces_to_ignore=None,
                 infer_numeric_types_for_untyped_literals=True,
                 discard_useless_constraints_with_positive_closure=True,
                 all_instances_are_compliant_mode=True,
                 keep_less_specific=True,
                 all_classes_mode=False,
                 shape_map_file=None,
                 shape_map_raw=None,
                 depth_for_building_subgraph=1,
                 track_classes_for_entities_at_last_depth_level=False,
                 strict_syntax_with_corners=False,
                 url_endpoint=None,
                 shape_map_format=FIXED_SHAPE_MAP,
                 shape_qualifiers_mode=False,
                 namespaces_for_qualifier_props=None,
                 remove_empty_shapes=True,
                 disable_comments=False,
                 disable_or_statements=True,
                 allow_opt_cardinality=True,
                 disable_exact_cardinality=False,
                 shapes_namespace=SHAPES_DEFAULT_NAMESPACE,
                 limit_remote_instances=-1,
                 wikidata_annotation=False,
                 inverse_paths=False,
                 compression_mode=None,
                 decimals=-1,
                 instances_report_mode=RATIO_INSTANCES,
                 disable_endpoint_cache=False,
                 detect_minimal_iri=False,
                 allow_redundant_or=False,
                 instances_cap=-1,
                 examples_mode=None
                 ):
        """

        :param target_classes:
        :param file_target_classes:
        :param input_format:
        :param instances_file_input:
        :param graph_file_input:
        :param graph_list_of_files_input:
        :param raw_graph:
        :param url_graph_input:
        :param rdflib_graph:
        :param list_of_url_input:
        :param namespaces_dict:
        :param instantiation_property:
        :param namespaces_to_ignore:
        :param infer_numeric_types_for_untyped_literals:
        :param discard_useless_constraints_with_positive_closure:
        :param all_instances_are_compliant_mode:
        :param keep_less_specific:
        :param all_classes_mode:
        :param shape_map_file:
        :param shape_map_raw:
        :param depth_for_building_subgraph:
        :param track_classes_for_entities_at_last_depth_level:
        :param strict_syntax_with_corners:
        :param url_endpoint:
        :param shape_map_format:
        :param shape_qualifiers_mode:
        :param namespaces_for_qualifier_props:
        :param remove_empty_shapes:
        :param disable_comments:
        :param disable_or_statements:
        :param allow_opt_cardinality:
        :param disable_exact_cardinality:
        :param shapes_namespace:
        :param limit_remote_instances:
        :param wikidata_annotation:
        :param inverse_paths:
        :param compression_mode:
        :param decimals:
        :param instances_report_mode:
        :param disable_endpoint_cache:
        :param detect_minimal_iri:
        :param allow_redundant_or:
        :param instances_cap:
        :param examples_mode:
        """

        check_just_one_not_none((graph_file_input, "graph_file_input"),
                                (graph_list_of_files_input, "graph_list_of_files_input"),
                                (raw_graph, "raw_graph"),
                                (url_graph_input, "url_input"),
                                (list_of_url_input, "list_of_url_input"),
                                (url_endpoint, "url_endpoint"),
                                (rdflib_graph, "rdflib_graph")
                                )

        # check_one_or_zero_not_none((namespaces_dict, "namespaces_dict"),
        #                            (namespaces_dict_file, "namespaces_dict_file"))

        self._check_target_classes(target_classes=target_classes,
                                   file_target_classes=file_target_classes,
                                   all_classes_mode=all_classes_mode,
                                   shape_map_raw=shape_map_raw,
                                   shape_map_file=shape_map_file)

        self._check_or_config(or_disabled=disable_or_statements,
                              enable_redundant=allow_redundant_or)

        #TODO ---> Param check of shape_map and graph_via_shape_map

        self._check_input_format(input_format)

        self._check_compression_mode(compression_mode, url_endpoint, url_graph_input, list_of_url_input)

        self._check_examples_mode(examples_mode)

        self._target_classes = target_classes
        self._file_target_classes = file_target_classes
        self._input_format = input_format
        self._instances_file_input = instances_file_input
        self._graph_file_input = graph_file_input
        self._graph_list_of_files_input = graph_list_of_files_input
        self._url_graph_input = url_graph_input
        self._list_of_url_input = list_of_url_input
        self._rdflib_graph = rdflib_graph
        self._namespaces_dict = dict(namespaces_dict) if namespaces_dict is not None else {}
        self._instantiation_property = \
            unprefixize_uri_if_possible(instantiation_property,
                                        include_corners=False,
                                        prefix_namespaces_dict=reverse_keys_and_values(self._namespaces_dict))
        self._namespaces_to_ignore = namespaces_to_ignore
        self._infer_numeric_types_for_untyped_literals = infer_numeric_types_for_untyped_literals
        self._discard_useles_constraints_with_positive_closure = discard_useless_constraints_with_positive_closure
        self._all_compliant_mode = all_instances_are_compliant_mode
        self._keep_less_specific = keep_less_specific
        self._raw_graph = raw_graph
        self._all_classes_mode = all_classes_mode
        self._shape_map_file = shape_map_file
        self._shape_map_raw = shape_map_raw
        self._decimals = decimals
        self._instances_report_mode = instances_report_mode
        self._disable_endpoint_cache=disable_endpoint_cache
        self._allow_redundant_or = allow_redundant_or
        self._instances_cap = instances_cap

        self._remove_empty_shapes=remove_empty_shapes
        self._disable_comments = disable_comments
        self._disable_or_statements = disable_or_statements
        self._allow_opt_cardinality = allow_opt_cardinality
        self._disable_exact_cardinality = disable_exact_cardinality
        # TODO: REMOVE THE _limit_remote_instances PARAMETER IN FUTURE RELEASES
        self._limit_remote_instances = limit_remote_instances if instances_cap==-1 else instances_cap
        self._wikidata_annotation = wikidata_annotation
        self._inverse_paths = inverse_paths
        self._detect_minimal_iri = detect_minimal_iri
        self._examples_mode = examples_mode

        self._compression_mode = compression_mode

        self._depth_for_building_subgraph = depth_for_building_subgraph
        self._track_classes_for_entities_at_last_depth_level = track_classes_for_entities_at_last_depth_level
        self._url_endpoint = url_endpoint
        self._strict_syntax_with_corners = strict_syntax_with_corners
        self._shape_map_format = shape_map_format
        self._shape_qualifiers_mode = shape_qualifiers_mode
        self._namespaces_for_qualifier_props = namespaces_for_qualifier_props
        self._shapes_namespace = shapes_namespace

        self._add_shapes_namespaces_to_namespaces_dict()


        #The following two atts are used for optimizations
        self._built_remote_graph = get_remote_graph_if_needed(endpoint_url=url_endpoint,
                                                              store_locally=not disable_endpoint_cache)
        self._built_shape_map = get_shape_map_if_needed(sm_format=self._shape_map_format,
                                                        remote_sgraph=self._built_remote_graph,
                                                        namespaces_prefix_dict=self._namespaces_dict,
                                                        target_classes=self._target_classes,
                                                        file_target_classes=self._file_target_classes,
                                                        shape_map_file=self._shape_map_file,
                                                        shape_map_raw=self._shape_map_raw,
                                                        instantiation_property=self._instantiation_property,
                                                        shape_map_already_built=None,
                                                        rdflib_graph=self._rdflib_graph,
                                                        raw_graph=self._raw_graph,
                                                        input_format=self._input_format,
                                                        source_file_graph=self._graph_file_input,
                                                        limit_remote_instances=self._limit_remote_instances)



        self._instance_tracker = None
        self._target_classes_dict = None
        self._class_profiler = None
        self._profile = None
        self._class_counts = None
        self._class_min_iris = None
        self._class_shexer = None
        self._shape_list = None

    def profile_graph(self, string_output=False, output_file=None, verbose=False):
        self._check_correct_output_params(string_output, output_file, None)
        if self._target_classes_dict is None:
            self._launch_instance_tracker(verbose=verbose)
        if self._profile is None:
            self._launch_class_profiler(verbose=verbose)
        log_msg(verbose=verbose,
                msg="Building_output...")
        if string_output:
            return AbstractProfileSerializer(self._profile).get_string_representation()
        return AbstractProfileSerializer(self._profile).write_profile_to_file(target_file=output_file)

    def shex_graph(self, string_output=False,
                   output_file=None,
                   output_format=SHEXC,
                   acceptance_threshold=0,
                   verbose=False,
                   to_uml_path=None):
        """
        :param string_output:
        :param output_file:
        :param output_format:
        :param acceptance_threshold:
        :param verbose:
        :param to_uml_path:
        :return:
        """
        self._check_correct_output_params(string_output, output_file, to_uml_path)
        self._check_output_format(output_format)
        self._check_aceptance_threshold(acceptance_threshold)
        if self._target_classes_dict is None:
            self._launch_instance_tracker(verbose=verbose)
        if self._profile is None:
            self._launch_class_profiler(verbose=verbose)
        if self._shape_list is None:
            self._launch_class_shexer(acceptance_threshold=acceptance_threshold,
                                      verbose=verbose)
        log_msg(verbose=verbose,
                msg="Building_output...")

        if to_uml_path is not None:
            log_msg(verbose=verbose,
                    msg="Trying to generat UML diagram...")
            try:
                self._generate_uml_diagram(to_uml_path)
                log_msg(verbose=verbose,
                        msg="UML diagram generated...")
            except ResourceWarning as e:  # I think this is related to UMLPlant and I can't close the connection from here
                pass

        if string_output or output_file is not None:
            log_msg(verbose=verbose,
                    msg="Generating text serialization...")
            serializer = self._build_shapes_serializer(target_file=output_file,
                                                       string_return=string_output,
                                                       output_format=output_format)

            return serializer.serialize_shapes()  # If string return is active, returns string.


    def _generate_uml_diagram(self, to_uml_path):
        serializer = get_uml_serializer(shapes_list=self._shape_list,
                                        image_path=to_uml_path,
                                        namespaces_dict=self._namespaces_dict)
        serializer.serialize_shapes()




    def _add_shapes_namespaces_to_namespaces_dict(self):
        self._namespaces_dict[self._shapes_namespace] = \
            find_adequate_prefix_for_shapes_namespaces(self._namespaces_dict)

    def _launch_class_profiler(self, verbose=False):
        if self._class_profiler is None:
            self._class_profiler = self._build_class_profiler()
        self._profile, self._class_counts, self._class_min_iris = self._class_profiler.profile_classes(verbose=verbose)

    def _launch_class_shexer(self, acceptance_threshold, verbose=False):
        if self._class_shexer is None:
            self._class_shexer = self._build_class_shexer()
        self._shape_list = self._class_shexer.shex_classes(acceptance_threshold=acceptance_threshold,
                                                           verbose=verbose)

    def _launch_instance_tracker(self, verbose=False):
        if self._instance_tracker is None:
            self._instance_tracker = self._build_instance_tracker()
        self._target_classes_dict = self._instance_tracker.track_instances(verbose=verbose)

    def _build_class_shexer(self):
        return get_class_shexer(class_counts=self._class_counts,
                                class_profile_dict=self._profile,
                                original_target_classes=self._target_classes,
                                original_shape_map=self._built_shape_map,
                                remove_empty_shapes=self._remove_empty_shapes,
                                discard_useless_constraints_with_positive_closure=
                                self._discard_useles_constraints_with_positive_closure,
                                keep_less_specific=self._keep_less_specific,
                                all_compliant_mode=self._all_compliant_mode,
                                instantiation_property=self._instantiation_property,
                                disable_or_statements=self._disable_or_statements,
                                disable_comments=self._disable_comments,
                                namespaces_dict=self._namespaces_dict,
                                allow_opt_cardinality=self._allow_opt_cardinality,
                                disable_exact_cardinality=self._disable_exact_cardinality,
                                shapes_namespace=self._shapes_namespace,
                                inverse_paths=self._inverse_paths,
                                decimals=self._decimals,
                                instances_report_mode=self._instances_report_mode,
                                detect_minimal_iri=self._detect_minimal_iri,
                                class_min_iris=self._class_min_iris,
                                allow_redundant_or=self._allow_redundant_or,

                                )

    def _build_shapes_serializer(self, target_file, string_return, output_format):
        return get_shape_serializer(shapes_list=self._shape_list,
                                    target_file=target_file,
                                    string_return=string_return,
                                    namespaces_dict=self._namespaces_dict,
                                    output_format=output_format,
                                    instantiation_property=self._instantiation_property,
                                    disable_comments=self._disable_comments,
                                    wikidata_annotation=self._wikidata_annotation,
                                    instances_report_mode=self._instances_report_mode,
                                    detect_minimal_iri=self._detect_minimal_iri,
                                    shape_features_examples=self._class_min_iris,
                                    examples_mode=self._examples_mode,
                                    inverse_paths=self._inverse_paths)

    def _build_class_profiler(self):
        return get_class_profiler(target_classes_dict=self._target_classes_dict,
                                  source_file=self._graph_file_input,
                                  list_of_source_files=self._graph_list_of_files_input,
                                  input_format=self._input_format,
                                  instantiation_property_str=self._instantiation_property,
                                  namespaces_to_ignore=self._namespaces_to_ignore,
                                  infer_numeric_types_for_untyped_literals=self._infer_numeric_types_for_untyped_literals,
                                  raw_graph=self._raw_graph,
                                  namespaces_dict=self._namespaces_dict,
                                  url_input=self._url_graph_input,
                                  list_of_url_input=self._list_of_url_input,
                                  rdflib_graph=self._rdflib_graph,
                                  shape_map_file=self._shape_map_file,
                                  shape_map_raw=self._shape_map_raw,
                                  track_classes_for_entities_at_last_depth_level=self._track_classes_for_entities_at_last_depth_level,
                                  depth_for_building_subgraph=self._depth_for_building_subgraph,
                                  url_endpoint=self._url_endpoint,
                                  strict_syntax_with_corners=self._strict_syntax_with_corners,
                                  target_classes=self._target_classes,
                                  file_target_classes=self._file_target_classes,
                                  built_remote_graph=self._built_remote_graph,
                                  built_shape_map=self._built_shape_map,
                                  remove_empty_shapes=self._remove_empty_shapes,
                                  limit_remote_instances=self._limit_remote_instances,
                                  inverse_paths=self._inverse_paths,
                                  all_classes_mode=self._all_classes_mode,
                                  compression_mode=self._compression_mode,
                                  disable_endpoint_cache=self._disable_endpoint_cache,
                                  detect_minimal_iri=self._detect_minimal_iri,
                                  examples_mode=self._examples_mode)


    def _build_instance_tracker(self):
        return get_instance_tracker(instances_file_input=self._instances_file_input,
                                    graph_file_input=self._graph_file_input,
                                    graph_list_of_files_input=self._graph_list_of_files_input,
                                    target_classes=self._target_classes,
                                    file_target_classes=self._file_target_classes,
                                    input_format=self._input_format,
                                    instantiation_property=self._instantiation_property,
                                    infer_numeric_types_for_untyped_literals=self._infer_numeric_types_for_untyped_literals,
                                    raw_graph=self._raw_graph,
                                    all_classes_mode=self._all_classes_mode,
                                    namespaces_dict=self._namespaces_dict,
                                    url_input=self._url_graph_input,
                                    list_of_url_input=self._list_of_url_input,
                                    rdflib_graph=self._rdflib_graph,
                                    shape_map_file=self._shape_map_file,
                                    shape_map_raw=self._shape_map_raw,
                                    track_classes_for_entities_at_last_depth_level=self._track_classes_for_entities_at_last_depth_level,
                                    depth_for_building_subgraph=self._depth_for_building_subgraph,
                                    url_endpoint=self._url_endpoint,
                                    strict_syntax_with_corners=self._strict_syntax_with_corners,
                                    shape_map_format=self._shape_map_format,
                                    namespaces_for_qualifier_props=self._namespaces_for_qualifier_props,
                                    shape_qualifiers_mode=self._shape_qualifiers_mode,
                                    built_remote_graph=self._built_remote_graph,
                                    built_shape_map=self._built_shape_map,
                                    shapes_namespace=self._shapes_namespace,
                                    limit_remote_instances=self._limit_remote_instances,
                                    inverse_paths=self._inverse_paths,
                                    compression_mode=self._compression_mode,
                                    disable_endpoint_cache=self._disable_endpoint_cache,
                                    instances_cap=self._instances_cap)


    @staticmethod
    def _check_correct_output_params(string_output, target_file, to_uml_path):
        if not string_output and target_file is None and to_uml_path is None:
            raise ValueError("You must provide a target path , set string output to True and/or give a value to to_uml_path")

    @staticmethod
    def _check_input_format(input_format):
        if input_format not in [NT, TSV_SPO, N3, TURTLE, RDF_XML, JSON_LD, TURTLE_ITER]:
            raise ValueError("Currently unsupported input format: " + input_format)

    @staticmethod
    def _check_compression_mode(compression_mode, url_endpoint, url_graph_input, list_of_url_input):
        if compression_mode not in [ZIP, GZ, XZ, None]:
            raise ValueError("Unknownk compression mode: {}. "
                             "The currently supported compression formats are {}.".format(
                compression_mode,
                ", ".join([ZIP, GZ, XZ])))
        if compression_mode is not None and (url_endpoint is not None or url_graph_input is not None or list_of_url_input is not None):
            raise ValueError("You've chosed some compression mode ({}) to work with remote sources."
                             "Currently, sheXer can only parse compressed local files".format(compression_mode))


    @staticmethod
    def _check_target_classes(target_classes, file_target_classes, all_classes_mode, shape_map_file, shape_map_raw):
        if not all_classes_mode:
            check_just_one_not_none((target_classes, "target_classes"),
                                    (file_target_classes, "file_target_classes"),
                                    (shape_map_file, "shape_map_file"),
                                    (shape_map_raw, "shape_map_raw")
                                    )
        else:
            if target_classes is not None or file_target_classes is not None:
                raise ValueError("You must provide a list of target classes XOR set all_classes_mode to True")
            # But all_classes mode is compatible with shape_map_selectors. Setting all_classes_mode = True and
            # providing some selectros will cause shexer to shex both the shapes specified in the selectors
            # and to create a shape for eahc element with an instance in the target graph

    @staticmethod
    def _check_output_format(output_format):
        if output_format not in [SHEXC, SHACL_TURTLE]:
            raise ValueError("Currently unsupported output format: " + output_format)

    @staticmethod
    def _check_or_config(or_disabled, enable_redundant):
        if or_disabled and enable_redundant:
            raise ValueError("You are indicating that you'd like to have disjunction constraints including the macro "
                             "IRI, but also that you do not want to have or constraints. Please, check your configuration"
                             "of the disable_or_statements and allow_redundant_or paremeters")

    @staticmethod
    def _check_aceptance_threshold(aceptance_threshold):
        if aceptance_threshold < 0 or aceptance_threshold > 1:
            raise ValueError("The acceptance threshold must be a value in [0,1]")

    @staticmethod
    def _check_examples_mode(examples_mode):
        if examples_mode not in [None, ALL_EXAMPLES, CONSTRAINT_EXAMPLES, SHAPE_EXAMPLES]:
            raise ValueError("The examples mode param should be set to None or using one of the values in shexer.const, section \"EXAMPLES\" ")
