#OUTPUTS
SHEXC = "ShEx"
SHACL_TURTLE = "Shacl"

#INPUT FORMATS
NT = "nt"
TSV_SPO = "tsv_spo"
TURTLE = "turtle"
TURTLE_ITER = "turtle_iter"
RDF_XML = "xml"
N3 = "n3"
JSON_LD = "json-ld"

#SHAPE MAP FORMATS
JSON = "json"
FIXED_SHAPE_MAP = "fsm"

#FREQUENT INSTATIATION PROPERTIES
RDF_TYPE = "http://www.w3.org/1999/02/22-rdf-syntax-ns#type"
WIKIDATA_INSTACE_OF = "http://www.wikidata.org/prop/direct/P31"

#NAMESPACES
SHAPES_DEFAULT_NAMESPACE = "http://weso.es/shapes/"

#COMPRESSION FORMATS
ZIP = "zip"
GZ = "gz"
XZ = "xz"

# FREQUENCY MODES

RATIO_INSTANCES = "ratio"
ABSOLUTE_INSTANCES = "abs"
MIXED_INSTANCES = "mixed"


# EXAMPLES
SHAPE_EXAMPLES = "shape"
CONSTRAINT_EXAMPLES = "cons"
ALL_EXAMPLES = "all"

# UML
UML_PLANT_SERVER = "http://www.plantuml.com/plantuml/img/"
