#!/usr/bin/env python3
"""Maintenance helper: confirm sub-agent mutants in a scratch worktree of /repo HEAD.
usage: tools_verify_seeds.py <outdir> <ID> ...   -> writes <outdir>/<ID>/verify.json"""
import json, os, subprocess, sys, xml.etree.ElementTree as ET, shutil
BASE = set(json.load(open('/root/.vp/BASELINE.json'))['stable_pass'])
def sh(cmd, cwd=None, timeout=900, env=None):
    r = subprocess.run(cmd, shell=True, cwd=cwd, capture_output=True, text=True, timeout=timeout, env=env)
    return r.returncode, (r.stdout + r.stderr)
def main(outdir, ids):
    for pid in ids:
        wt = '/tmp/vt/' + pid
        if os.path.exists(wt):
            sh('git -C /repo worktree remove --force ' + wt)
        rc, o = sh('git -C /repo worktree add --detach %s HEAD' % wt)
        assert rc == 0, o
        res = {}
        env = dict(os.environ, PYTHONPATH=wt, PYTHONWARNINGS='ignore')
        for k in (1, 2, 3, 4):
            d = '%s/%s' % (outdir, pid)
            patch, demo = '%s/patch%d.diff' % (d, k), '%s/demo%d.py' % (d, k)
            if not os.path.exists(patch):
                continue
            r = {}
            sh('git checkout -- . && git clean -fdq', cwd=wt)
            rc, o = sh('/venv/bin/python %s' % demo, cwd=wt, env=env, timeout=600)
            r['demo_clean'] = rc
            rc, o = sh('git apply %s' % patch, cwd=wt)
            r['applies'] = (rc == 0)
            if rc != 0:
                rc3, o3 = sh('git apply --3way %s' % patch, cwd=wt)
                r['applies_3way'] = (rc3 == 0); r['apply_err'] = o[-300:]
                if rc3 != 0:
                    res[k] = r; continue
            sh('git diff > /tmp/vt/%s_patch%d.rebased.diff' % (pid, k), cwd=wt)
            j = '/tmp/vt/%s_%d.xml' % (pid, k)
            rc, o = sh('/venv/bin/python -m pytest -q -p no:cacheprovider --timeout=900 --continue-on-collection-errors --junitxml=%s' % j, cwd=wt)
            ok = set()
            try:
                for tc in ET.parse(j).iter('testcase'):
                    if not list(tc): ok.add(tc.get('classname') + '::' + tc.get('name'))
            except Exception as e:
                r['junit_err'] = str(e)
            r['baseline_missing'] = sorted(BASE - ok)
            rc, o = sh('/venv/bin/python %s' % demo, cwd=wt, env=env, timeout=600)
            r['demo_mut'] = rc; r['demo_mut_out'] = o[-400:]
            res[k] = r
            if os.path.exists(j): os.remove(j)
        sh('git checkout -- . && git clean -fdq', cwd=wt)
        sh('git -C /repo worktree remove --force ' + wt)
        json.dump(res, open('%s/%s/verify.json' % (outdir, pid), 'w'), indent=1)
        print(pid, {k: ('OK' if v.get('demo_clean') == 0 and v.get('demo_mut') == 1 and not v.get('baseline_missing', ['x']) else v) for k, v in res.items()}, flush=True)
if __name__ == '__main__':
    main(sys.argv[1], sys.argv[2:])
