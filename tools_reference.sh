#!/bin/sh
# maintenance helper: refresh /verif/reference (the sources the rules' anchors were confirmed on) from /repo's committed HEAD.
# Run after a fix: commit in /repo, together with tools_reverify_stored.py.
set -e
rm -rf /verif/reference && mkdir -p /verif/reference
git -C /repo archive HEAD shexer | tar -x -C /verif/reference
find /verif/reference -type f ! -name '*.py' -delete
find /verif/reference -type d -empty -delete
git -C /repo rev-parse HEAD > /verif/reference/COMMIT
