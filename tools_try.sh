#!/bin/sh
# maintenance helper: tools_try.sh <seed> <prop>...  -> violations / analysis errors of the checks on a scratch copy with the seed applied
seed=$1; shift
d=$(mktemp -d /tmp/sa_try_XXXX); cp -r /repo/shexer $d/
(cd $d && git apply --whitespace=nowarn /verif/seeded/$seed/patch.diff) || echo "APPLY FAILED"
for p in "$@"; do
  SA_REPO=$d SA_OUT=$d /venv/bin/python -W ignore -m sa check $p 2>&1 | grep -A1 "^VIOLATION\|ANALYSIS-ERROR" | grep -v "^--" | cut -c1-400
  echo "[$seed $p] exit=$?"
done
rm -rf $d
