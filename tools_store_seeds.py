#!/usr/bin/env python3
"""Maintenance helper: store sub-agent changes that tools_verify_seeds.py confirmed.
usage: tools_store_seeds.py <outdir> <round> <ID> ...   -> /verif/seeded/<ID>-r<round>-<k>/"""
import json, os, shutil, subprocess, sys
def main(outdir, rnd, ids):
    head = subprocess.run("git -C /repo rev-parse --short HEAD", shell=True, capture_output=True, text=True).stdout.strip()
    for pid in ids:
        v = json.load(open("%s/%s/verify.json" % (outdir, pid)))
        for k, r in sorted(v.items()):
            ok = r.get("demo_clean") == 0 and r.get("demo_mut") == 1 and r.get("applies") and not r.get("baseline_missing", ["x"])
            if not ok:
                print("NOT CONFIRMED", pid, k, r); continue
            d = "/verif/seeded/%s-r%s-%s" % (pid, rnd, k)
            os.makedirs(d, exist_ok=True)
            shutil.copy("%s/%s/patch%s.diff" % (outdir, pid, k), d + "/patch.diff")
            shutil.copy("%s/%s/demo%s.py" % (outdir, pid, k), d + "/demo.py")
            try:
                m = json.load(open("%s/%s/meta%s.json" % (outdir, pid, k)))
            except Exception as e:
                m = {"summary": "(agent meta unreadable: %s)" % e}
            meta = {"property": pid, "round": int(rnd),
                    "origin": "independent sub-agent given only the property text and a scratch worktree",
                    "summary": m.get("summary"), "needs_to_manifest": m.get("needs_to_manifest"),
                    "files_changed": m.get("files_changed"), "repo_head_when_confirmed": head,
                    "confirmed_by_me": {"how": "tools_verify_seeds.py in a scratch worktree of /repo HEAD: demo on clean tree, git apply, full "
                                               "pytest suite vs BASELINE.json stable_pass, demo on changed tree",
                                        "demo_exit_clean": r["demo_clean"], "demo_exit_mutated": r["demo_mut"],
                                        "baseline_tests_missing": r["baseline_missing"],
                                        "demo_output_mutated_tail": r.get("demo_mut_out", "")[-300:]},
                    "run": "git -C /repo apply %s/patch.diff ; PYTHONPATH=/repo /venv/bin/python %s/demo.py ; git -C /repo checkout -- ." % (d, d)}
            json.dump(meta, open(d + "/meta.json", "w"), indent=1)
            print("stored", d)
if __name__ == "__main__":
    main(sys.argv[1], sys.argv[2], sys.argv[3:])
