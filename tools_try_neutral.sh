#!/bin/sh
# maintenance helper: tools_try_neutral.sh <name> <prop>...  -> what the checks say on a scratch copy with the stored neutral refactoring applied
n=$1; shift
d=$(mktemp -d /tmp/sa_tryn_XXXX); cp -r /repo/shexer $d/
(cd $d && git apply --whitespace=nowarn /verif/neutral/$n/patch.diff) || echo "APPLY FAILED"
for p in "$@"; do
  SA_REPO=$d SA_OUT=$d /venv/bin/python -W ignore -m sa check $p 2>&1 | grep -A1 "^VIOLATION\|ANALYSIS-ERROR" | grep -v "^--" | cut -c1-${W:-600}
  echo "[$n $p]"
done
[ -n "$KEEP" ] && echo $d || rm -rf $d
