#!/usr/bin/env python3
"""Maintenance helper: run every claimed check against every seeded change (scratch copies, 16 workers)."""
import json, os, shutil, subprocess, sys, tempfile
from concurrent.futures import ThreadPoolExecutor
V='/verif'
claimed=[c['property_id'] for c in json.load(open(V+'/MANIFEST.json'))['checks']]
seeds=sorted(os.listdir(V+'/seeded'))
only=sys.argv[1:] 
def one(seed):
    d=tempfile.mkdtemp(prefix='sa_matrix_')
    try:
        shutil.copytree('/repo/shexer', d+'/shexer', ignore=shutil.ignore_patterns('__pycache__'))
        r=subprocess.run(['git','apply','--whitespace=nowarn',V+'/seeded/%s/patch.diff'%seed],cwd=d,capture_output=True,text=True)
        if r.returncode: return seed,{'apply':r.stderr[-100:]}
        res={}
        for p in claimed:
            if only and p not in only and seed.split('-')[0] not in only: continue
            env=dict(os.environ,SA_REPO=d,SA_OUT=d,PYTHONPATH=V)
            r=subprocess.run(['/venv/bin/python','-W','ignore','-m','sa','check',p],cwd=V,env=env,capture_output=True,text=True)
            if r.returncode: res[p]=r.returncode
        return seed,res
    finally: shutil.rmtree(d,ignore_errors=True)
with ThreadPoolExecutor(16) as ex:
    out=dict(ex.map(one,seeds))
caught=0
for s in seeds:
    own=s.split('-')[0]
    r=out[s]
    k='OWN' if r.get(own)==1 else ('other' if any(v==1 for v in r.values()) else ('exit2' if any(v==2 for v in r.values()) else '-'))
    if k in('OWN','other'): caught+=1
    print('%-8s %-6s %s'%(s,k,{p:v for p,v in r.items()}))
print('caught %d/%d with %d checks'%(caught,len(seeds),len(claimed)))
