#!/usr/bin/env python3
"""Maintenance helper: run every claimed check against every stored neutral refactoring (/verif/neutral/<name>/patch.diff).
exit 1 of a check = FALSE ALARM, exit 2 = fails closed."""
import json, os, shutil, subprocess, sys, tempfile
from concurrent.futures import ThreadPoolExecutor
V='/verif'
claimed=[c['property_id'] for c in json.load(open(V+'/MANIFEST.json'))['checks']]
names=sorted(n for n in os.listdir(V+'/neutral') if not sys.argv[1:] or n.startswith(tuple(sys.argv[1:])))
def one(name):
    d=tempfile.mkdtemp(prefix='sa_neutral_')
    try:
        shutil.copytree('/repo/shexer', d+'/shexer', ignore=shutil.ignore_patterns('__pycache__'))
        r=subprocess.run(['git','apply','--whitespace=nowarn',V+'/neutral/%s/patch.diff'%name],cwd=d,capture_output=True,text=True)
        if r.returncode: return name,{'apply':r.stderr[-100:]}
        res={}
        for p in claimed:
            env=dict(os.environ,SA_REPO=d,SA_OUT=d,PYTHONPATH=V)
            r=subprocess.run(['/venv/bin/python','-W','ignore','-m','sa','check',p],cwd=V,env=env,capture_output=True,text=True)
            if r.returncode:
                keys=[l.strip()[5:] for l in r.stdout.splitlines() if l.strip().startswith('key: ')]
                errs=[l[:160] for l in r.stdout.splitlines() if l.startswith('ANALYSIS-ERROR')]
                res[p]=(r.returncode, keys[:3] if r.returncode==1 else errs[:2])
        return name,res
    finally: shutil.rmtree(d,ignore_errors=True)
with ThreadPoolExecutor(16) as ex:
    out=dict(ex.map(one,names))
fa=fc=0
for n in names:
    r=out[n]
    alarms={p:v for p,v in r.items() if isinstance(v,tuple) and v[0]==1}
    closed={p:v for p,v in r.items() if isinstance(v,tuple) and v[0]==2}
    fa+=bool(alarms); fc+=bool(closed and not alarms)
    print('%-12s %s'%(n, 'silent' if not r else ('FALSE ALARM '+json.dumps(alarms) if alarms else '')+(' fails-closed '+json.dumps(closed) if closed else '')+(' '+str(r) if 'apply' in r else '')))
print('%d neutral changes: %d with a false alarm, %d more with a fail-closed check'%(len(names),fa,fc))
