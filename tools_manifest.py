#!/usr/bin/env python3
"""Maintenance helper: regenerate MANIFEST.json from the table below (not used by the checks)."""
import json, os
PROPS = [json.loads(l)["id"] for l in open("/verif/properties.jsonl")]
NOTE = ("Static analysis of /repo/shexer (ast, stdlib only): decides the named structural clauses for all inputs and "
        "configurations; it does not decide the behavioural statement as a whole (DESIGN.md section 4 lists the "
        "undecided part per property). Trusted base: third-party code summarised; name-based resolution of untyped "
        "receivers over-approximates; frozen idiom/exception tables in sa/exceptions.py with one reason per entry.")
E2E = ("the profiling / shexing stage interpreted end to end (abstract evaluator, object mode) on three small graphs and held against ")
EXTRA = {
 "C01": E2E + "a transcription of the property statement: class profile and instance counts (reference relation)",
 "C03": E2E + "a transcription of the property statement: offered cardinalities per class, property and value kind (reference relation)",
 "C09": E2E + "itself with triples, instances and class lists in another order (permutation relation)",
 "C14": E2E + "the run without inverse paths and the run on the reversed graph, at profile and at constraint level for four thresholds (mirror relation)",
 "C12": E2E + "itself at four thresholds: a higher threshold only removes shapes and constraint keys (monotone relation)",
 "C02": E2E + "itself at four thresholds and against the reversed graph (monotone and mirror relations)",
 "C05": E2E + "the closedness clause that no shape label is a value of the instantiation property; constraint-line table of both ShExC statement serializers",
 "C17": E2E + "the instances: stems are common prefixes of all instances, shape and constraint examples are real instances / values, for every option combination",
 "C04": E2E + "nothing but termination without exception (no-crash relation); valid Turtle / N-Triples documents are read to the end; R-GIVEN: an empty-but-given input is not 'no input'",
 "C16": "the capped tracker is constructed and driven through its public methods over sequences of triples against a reference model of the option (140 steps)",
 "C15": "tracked-set pairing of the endpoint cache and namespace-dictionary orientation (who-may-flow rules)",
 "C10": "target-classes file reader table; namespace-dictionary orientation",
 "C20": "R-GIVEN: no copy of an optional constructor argument is tested by truthiness",
}
CLAIMED = {
 "C04": ("static crash-freedom clauses: optional-slot nullness (must-facts dataflow), call/attribute conformance over the "
         "resolved call graph, finite-domain propagation of validated enums into dispatchers, raise-site and implicit-None "
         "audit, profile-layout discipline, choice-statement typestate", "4 C04",
         "ast dataflow + call-graph lints (R-NULL, R-SIG, R-ENUM, R-RAISE/R-RET, R-LAYOUT, R-TS)"),
 "C20": ("decision tables of the validation prefix of Shaper.__init__/shex_graph extracted by abstract evaluation and compared "
         "row by row with the reference predicate (complete for each argument group against a valid default of the others); "
         "dominance of the validation prefix; accepted enum values and graph sources are handled by every consumer", "4 C20",
         "decision-table extraction by abstract evaluation of the AST + finite-domain propagation + value-flow reachability (R-TABLE, R-ORDER, R-ENUM)"),
 "C11": ("complete decision of the ShExC<->SHACL mapping clauses: per statement kind, cardinality class and direction the triples the "
         "SHACL serialiser emits are extracted from its source and compared with the reference mapping of the ShExC rendering; "
         "table rows, emission-loop totality, normaliser agreement, no mutation of the shared model", "4 C11",
         "decision/emission-table extraction by abstract evaluation of the AST, constant-table comparison, value-flow slices (R-TABLE, R-CONST, R-EMIT, R-LOOP, R-FLOW, R-PURE)"),
 "C12": ("necessary structural conditions of threshold monotonicity decided for all graphs and thresholds: the threshold's only sinks are "
         "the range check and boundary-inclusive candidate filters on the direct result of _compute_frequency, it is forwarded explicitly, "
         "never reaches the later stages, filtering precedes grouping; decision table of the useless-'+' predicate. Key preservation by the "
         "merge is not decided", "4 C12", "value-flow (taint) analysis with source/sink audit, comparison-shape and call-site forwarding lints, twin comparison, decision table (R-FLOW, R-CMP, R-PLUMB, R-ORDER, R-TWIN, R-TABLE)"),
 "C02": ("necessary structural conditions of 'exactly the features at or above the threshold': filter shape and placement at every candidate "
         "site, total candidate/grouping loops, select-before-assign, removal decision tables, sibling agreement. That grouping keeps one "
         "survivor per key is not decided", "4 C02", "comparison-shape lint over value-flow, loop-totality and ordering lints, decision tables by abstract evaluation, twin comparison (R-CMP, R-PLUMB, R-LOOP, R-ORDER, R-TABLE, R-TWIN)"),
 "C03": ("decision tables of the all-compliant relaxation, of the offered cardinalities, of the selection among cardinalities and of the tuning "
         "pipeline, extracted from the source over abstract cardinality/probability classes and compared with the property statement; "
         "twin of the direct/inverse feature inference. Necessary conditions only: conformance under ShEx semantics is not decided", "4 C03",
         "decision-table extraction by abstract evaluation of the AST, loop-totality lint, twin comparison (R-TABLE, R-LOOP, R-TWIN)"),
 "C13": ("non-interference policy decided for all inputs: for every option, the effect classes that are control-dependent on it (difference of "
         "the arms of every test it reaches, through callees, method slots and selected classes) lie inside its documented scope, and its value "
         "never flows into model fields; tuning order, rounding conversions, OR construction, class-level state. Decides which code an option can "
         "influence, not the magnitude of the difference between two runs", "4 C13",
         "information-flow (taint) analysis + control-dependence regions + effect summaries over the call graph, compared with an allow-list per option (R-EFFECT); ordering/shape lints (R-ORDER, R-TABLE, R-FLOW, R-GLOBAL)"),
 "C18": ("effect/alias analysis decided for all call histories: no API-reachable mutation of an object aliasing a caller's argument, serialisers "
         "own what they mutate, memo guards compare the arguments the stage depends on and accumulating stages run once, buffered-writer "
         "ordering (truncate once, append, reset after flush on every path, final flush), no class-level / rebound module state in the result. "
         "Byte equality of concrete outputs is not decided", "4 C18",
         "ownership/alias analysis over the value-flow graph (copy edges, one level of object sensitivity), memo-key and typestate lints, ordering lints (R-PURE, R-MEMO, R-ORDER, R-GLOBAL)"),
 "C19": ("complete decision for sheXer's own code, all inputs and hash seeds: no set iteration order, random value, clock, hash()/id() or "
         "rebound global can flow to an API result or written file on any API-reachable path, except randomness after the four documented "
         "default prefixes are exhausted. Nondeterminism inside rdflib/SPARQLWrapper is outside the analysed program", "4 C19",
         "source-to-sink dataflow over the value-flow graph with reachability (R-DET), commutative-loop recognition, global-state lint (R-GLOBAL)"),
 "C01": ("necessary structural conditions of exact figures, for all graphs: who may write the evidence tables and in which forms (absence "
         "initialisation, += 1, class append), total accumulation loops, direct/inverse twins, complete memo keys, and the data-flow of every "
         "reported figure at the candidate and shape construction sites (own 4-level key, same-class denominator, no arithmetic on figures). "
         "That the tables equal the cardinalities of the input graph is not decided", "4 C01",
         "who-may-write / write-form lint over the evidence tables, loop-totality, def-use data-flow check at construction sites, twin comparison, memo-key lint, decision table (R-COUNT, R-LOOP, R-FLOW, R-TWIN, R-MEMO, R-TABLE)"),
 "C09": ("necessary structural conditions of order / relabeling invariance of the evidence, for all graphs: commutative and total "
         "accumulation, complete memo keys, no set-order escape, node identifiers used only as keys and equality operands in the evidence "
         "stages, twins, class-only labels. Tie-breaking among equally frequent alternatives is not analysed (the property allows it to vary)", "4 C09",
         "write-form and loop-totality lints over the evidence tables, memo-key lint, set-order dataflow, identifier-use lint over the value-flow graph, twin comparison (R-COUNT, R-LOOP, R-MEMO, R-DET, R-KEY, R-TWIN)"),
 "C14": ("sibling agreement of every direct/inverse code pair modulo a role map (normalised AST comparison), agreement of the writer/reader "
         "position constants, and direction plumbing (profile half -> statement flag -> serializer -> printed ^). Relative rules: necessary "
         "conditions; equality with the reversed graph additionally needs C01's value-level part", "4 C14",
         "clone/twin comparison of normalised ASTs under a role map, constant-table agreement, argument-agreement lints at construction sites (R-TWIN, R-CONST, R-PLUMB, R-EMIT)"),
 "C10": ("necessary structural conditions decided for all graphs and target specifications: the configured instantiation property is the only "
         "one consulted (who-may-use audit of the rdf:type constants, provenance at the recognition sites, forwarding at every call site), a "
         "node keeps every class/label it was selected for, tracker and strategy selection tables equal the property statement, siblings agree. "
         "Selector parsing is decided on a table of representative selectors (default prefix included) and the parsers' find() sentinels are audited; SPARQL evaluation is not decided", "4 C10",
         "who-may-use lint on constants, context-sensitive provenance over the value-flow graph, call-site forwarding lint, decision tables by abstract evaluation, twin comparison (R-CONST, R-FLOW, R-PLUMB, R-TABLE, R-TWIN, R-COUNT, R-SENT)"),
 "C16": ("decision tables of the cap acceptance/counting variants, of the strategy composition and of the direct-child namespace predicate "
         "(complete over their abstract domains), value-flow proof that namespaces_to_ignore reaches the feature pass only, twins of the cap "
         "variants. Equality of complete outputs with the restricted document is not decided", "4 C16",
         "decision tables by abstract evaluation of the AST, value-flow reachability of an option (who receives it), twin comparison (R-TABLE, R-PLUMB, R-TWIN)"),
 "C17": ("decision tables of the stem cut-back, of longest_common_prefix and of the fold step (sentinel), example bookkeeping (other end of "
         "the triple, first-seen guard = store key, fresh per-shape storage, read with the statement's direction), twins, influence policy of "
         "the two options. Longest-stem maximality over arbitrary instance sets is not separately decided", "4 C17",
         "decision tables by abstract evaluation (regex constant folded), def-use pairing lint at the example sites, twin comparison, information-flow policy (R-TABLE, R-CONST, R-FLOW, R-PURE, R-TWIN, R-EFFECT)"),
 "C15": ("NARROW structural claim about endpoint code that cannot run offline: cache-flag polarity at every construction site, the flag has no "
         "model effect, cached variants fill-mark-replay without yielding while storing, remote/local and p_o/s_p twins, IRI bindings cornered "
         "by binding type, both passes receive the same options. Equality with local extraction, replay fidelity and query counts are NOT decided", "4 C15",
         "value-flow path parity, information-flow policy, statement-order lint, twin comparison, decision table, call-site agreement lint (R-PLUMB, R-EFFECT, R-ORDER, R-TWIN, R-TABLE)"),
 "C05": ("structural closedness / well-formedness clauses decided for all inputs: label producers receive the configured namespace at every call "
         "site, drop-shape/drop-references pairing in every direction iterated to a fixpoint, references only for instances, guarded prefix "
         "insertion, total emission loops and a loss-free buffered writer, one sh:path per property shape, label/token rendering tables. Parsing "
         "under the ShExC grammar for every IRI and label uniqueness are not decided", "4 C05",
         "call-site forwarding lint over value-flow, ordering/pairing lints, guard-dominance lint, loop-totality, emission tables by abstract evaluation (R-PLUMB, R-ORDER, R-GUARD, R-LOOP, R-EMIT, R-TABLE, R-TWIN)"),
 "C06": ("shape-of-the-code clauses of the N-Triples scanner decided for all inputs: language-tag sigil consistency (constant folding + "
         "guard/branch agreement), every find/rfind result used as an index is protected (enumerated idioms, 7 frozen exceptions), datatype "
         "decision audited for whole-token substring tests and tabulated over representative tokens, statement separation. Correctness of the "
         "quote/escape scanning for every lexical form is not decided", "4 C06",
         "constant folding + contradiction lint, sentinel-use dataflow lint (R-SENT), scope lint (R-SCOPE), decision table by abstract evaluation (R-TABLE), twin comparison"),
 "C07": ("the statement automaton of the Turtle reader extracted cell by cell from the token dispatch and compared with the reference productions, "
         "inclusive/exclusive index kinds of the token-boundary searches, bounds-check adequacy, protected find results, no stale snapshot of parser "
         "state, prefix table reaching every expansion site. Agreement with a standard parser on every layout is not decided", "4 C07",
         "typestate table extraction by abstract evaluation of the dispatch chain (R-TS), index-kind inference (R-IDX), bounds-check implication lint (R-BOUND), sentinel and stale-read dataflow lints (R-SENT, R-STALE), value-flow reachability (R-FLOW)"),
}
NA_REASON = {
 "C08": "relates the outputs of different parsers (rdflib readers, two hand-written scanners, TSV splitter, decompressors) on "
        "the same abstract graph: a value-level relation that no static rule over sheXer's source bounds; the only "
        "shape-visible clauses (dispatch coverage, sibling forwarding) are decided under C04/C20 (DESIGN.md section 5)",
}
def main():
    checks, na = [], []
    for p in PROPS:
        if p in CLAIMED:
            text, ref, tech = CLAIMED[p]
            if p in EXTRA:
                text = text + ". " + EXTRA[p] + " (DESIGN.md 11.14)"
                tech = tech + "; end-to-end tables: the stage interpreted whole through its public entry point (R-TABLE|profile, R-TABLE|shapes)"
            checks.append({"property_id": p, "quick_cmd": "/venv/bin/python -W ignore -m sa check %s --tier quick" % p,
                           "thorough_cmd": "/venv/bin/python -W ignore -m sa check %s --tier thorough" % p,
                           "evidence_file": "/verif/evidence/%s.json" % p,
                           "replay_cmd_template": "/venv/bin/python -W ignore -m sa replay {path}",
                           "engine": "sa", "level_claimed": {"category": "other", "text": text, "design_ref": "DESIGN.md section " + ref},
                           "level_note": NOTE, "technique": tech})
        else:
            na.append({"property_id": p, "reason": NA_REASON.get(p, "check not built yet (DESIGN.md section 10 build order)")})
    m = {"version": 1, "setup_cmd": "true",
         "hooks": {"guard": "SHEXER_VERIF", "enable": "no hooks: the checks read /repo's source and never execute it",
                   "baseline_off_cmd": "cd /repo && /venv/bin/python -m pytest -ra -q -p no:cacheprovider --timeout=900 --continue-on-collection-errors",
                   "source_commits": [], "add_only": True},
         "engines": [{"name": "sa", "path": "/verif/sa", "serves_properties": sorted(CLAIMED),
                      "kind_free_text": "repository-specific static analysis (python ast): module/constant/class tables, class-sensitive "
                                        "types, resolved call graph with RTA, value-flow graph, must-facts walker, finite-domain "
                                        "propagation, decision-table extraction, twin normaliser"}],
         "checks": checks, "not_applicable": na,
         "notes": "exit 0 = all obligations discharged or listed in known_findings.jsonl; 1 = unlisted violation; 2 = analysis broken"}
    json.dump(m, open("/verif/MANIFEST.json", "w"), indent=1)
if __name__ == "__main__":
    main()
